(* TraceP.v — what the execution of the generated code evaluates and formats (C08). *)
From ASModel Require Import Base Tokens Report Ast IR Expand SetMatch Values Nodes Sem Spec.
From ASProofs Require Import PatInd StmtInd SemP.

Definition is_debug_ev (e : event) : bool := match e with EvDebug _ => true | _ => false end.
Definition is_root_ev (e : event) : bool := match e with EvRoot => true | _ => false end.
Definition cnt (f : event -> bool) (t : list event) : nat := List.length (filter f t).
Definition is_debug_entry (e : entry) : bool := match en_actual e with TDebug _ => true | _ => false end.
Definition debug_entries (r : list entry) : nat := List.length (filter is_debug_entry r).

Lemma cnt_app f a b : cnt f (a ++ b) = cnt f a + cnt f b.
Proof. unfold cnt. rewrite filter_app, app_length. reflexivity. Qed.

Lemma debug_entries_app a b : debug_entries (a ++ b) = debug_entries a + debug_entries b.
Proof. unfold debug_entries. rewrite filter_app, app_length. reflexivity. Qed.

(* ---- Debug formatting happens only for reported mismatches ------------------ *)

Lemma eval_no_debug en : forall e v t, eval en e = Some (v, t) -> cnt is_debug_ev t = 0.
Proof.
  induction e; intros v t H; cbn [eval] in H.
  - inversion H; reflexivity.
  - destruct (lookup _ _); inversion H; reflexivity.
  - destruct (lookup _ _); inversion H; reflexivity.
  - destruct (eval en e) as [[w t0]|]; inversion H; subst. eapply IHe; reflexivity.
  - destruct (eval en e) as [[w t0]|]; [|discriminate]. destruct f.
    + destruct (field_of w name); inversion H; subst. eapply IHe; reflexivity.
    + destruct (elem_of w n); inversion H; subst. eapply IHe; reflexivity.
  - destruct (eval en e) as [[w t0]|]; [|discriminate]. destruct w; inversion H; subst; eapply IHe; reflexivity.
  - destruct (eval en e) as [[w t0]|]; [|discriminate].
    destruct (all_some _); [|discriminate]. destruct (method_sem m w l); inversion H; subst.
    rewrite cnt_app. rewrite (IHe w t0 eq_refl). reflexivity.
  - discriminate.
  - destruct (eval en e) as [[w t0]|]; [|discriminate]. destruct (field_of w f); inversion H; subst. eapply IHe; reflexivity.
  - destruct (eval en e) as [[w t0]|]; [|discriminate]. destruct (elem_of w i); inversion H; subst. eapply IHe; reflexivity.
  - destruct (eval en e) as [[w t0]|]; [|discriminate].
    destruct (ueval (e_caller en) i) as [[k| | | | | | | | | | | |]|]; try discriminate.
    destruct (auto_deref w); try discriminate. destruct (Z.ltb k 0); [discriminate|].
    destruct (nth_error vs (Z.to_nat k)); inversion H; subst. rewrite cnt_app. rewrite (IHe w t0 eq_refl). reflexivity.
Qed.

Lemma do_push_debug en p a rep tr :
  do_push en p a = Some (rep, tr) -> cnt is_debug_ev tr = debug_entries rep.
Proof.
  unfold do_push. destruct (ps_actual p) as [e|e| |e|].
  - destruct (eval en e) as [[v t]|] eqn:E; [|discriminate]. intros H; inversion H; subst.
    rewrite cnt_app, (eval_no_debug en e v t E). reflexivity.
  - destruct (eval en e) as [[v t]|] eqn:E; [|discriminate]. intros H; inversion H; subst.
    rewrite cnt_app, (eval_no_debug en e v t E). reflexivity.
  - destruct a; [|discriminate]. intros H; inversion H; reflexivity.
  - destruct (eval en e) as [[v t]|] eqn:E; [|discriminate]. destruct (auto_deref v); try discriminate.
    intros H; inversion H; subst. cbn. eapply eval_no_debug; exact E.
  - intros H; inversion H; reflexivity.
Qed.

Lemma test_debug en r t p a rep tr :
  cnt is_debug_ev t = 0 -> test en r t p a = Some (rep, tr) -> cnt is_debug_ev tr = debug_entries rep.
Proof.
  intros Ht. unfold test. destruct r as [[|]|]; [| |discriminate].
  - intros H; inversion H; subst. exact Ht.
  - destruct (do_push en p a) as [[r1 t1]|] eqn:E; [|discriminate]. cbn. intros H; inversion H; subst.
    rewrite cnt_app, Ht. cbn. eapply do_push_debug; exact E.
Qed.

Definition debug_ok (s : stmt) : Prop :=
  forall en rep tr, exec s en = Some (rep, tr) -> cnt is_debug_ev tr = debug_entries rep.

Lemma run_list_debug : forall body en rep tr,
  Forall debug_ok body -> run_list body en = Some (rep, tr) -> cnt is_debug_ev tr = debug_entries rep.
Proof.
  induction body as [|x r IH]; intros en rep tr HF H; cbn in H.
  - inversion H; reflexivity.
  - inversion HF as [|? ? Hx Hr]; subst.
    destruct (exec x en) as [[r1 t1]|] eqn:E1; [|discriminate].
    destruct (run_list r en) as [[r2 t2]|] eqn:E2; [|discriminate]. cbn in H. inversion H; subst.
    rewrite cnt_app, debug_entries_app, (Hx en r1 t1 E1), (IH en r2 t2 Hr E2). reflexivity.
Qed.

Lemma seq_pre_debug t body en rep tr :
  cnt is_debug_ev t = 0 -> Forall debug_ok body ->
  seq2 (Some ([], t)) (run_list body en) = Some (rep, tr) -> cnt is_debug_ev tr = debug_entries rep.
Proof.
  intros Ht HF H. destruct (run_list body en) as [[r2 t2]|] eqn:E; [|discriminate]. cbn in H. inversion H; subst.
  rewrite cnt_app, Ht. cbn. eapply run_list_debug; eassumption.
Qed.

(* C08, second half: outside set predicates (whose probe reports are discarded), the number of
   Debug formattings equals the number of Debug-formatted entries in the report — zero on the
   passing path.  For every statement of the IR, hence for every expansion. *)
Theorem exec_debug_count : forall s, debug_ok s.
Proof.
  induction s as [|m|sp e pt p|sp e l lsp p|sp op e x p|sp e path p|sp e path bs body p IHb|sp e path fs rest body p IHb
                 |body IHb|e bs body IHb|sp e r parts p|e parts body p IHb|sp e pat p|sp e x p|sp e c p|sp e n p
                 |sp e k s missing IHs|e preds rest node IHb] using stmt_ind'; intros en rep tr H; cbn [exec] in H.
  - inversion H; reflexivity.
  - discriminate.
  - destruct (eval en e) as [[v t]|] eqn:E; [|discriminate]. eapply test_debug; [eapply eval_no_debug; exact E|exact H].
  - destruct (eval en e) as [[v t]|] eqn:E; [|discriminate]. destruct (parse_str_lit l); [|discriminate].
    destruct (peel v); try discriminate. eapply test_debug; [eapply eval_no_debug; exact E|exact H].
  - destruct (eval en e) as [[v t]|] eqn:E; [|discriminate]. destruct (ueval (e_caller en) x); [|discriminate].
    eapply test_debug; [eapply eval_no_debug; exact E|exact H].
  - destruct (eval en e) as [[v t]|] eqn:E; [|discriminate]. destruct (path_last path); [|discriminate].
    pose proof (eval_no_debug en e v t E) as Ht.
    destruct (path_single path && negb (existsb (String.eqb s) (e_units en))); [inversion H; subst; exact Ht|].
    destruct (peel v); try discriminate; try (eapply test_debug; [exact Ht|exact H]).
    destruct args; eapply test_debug; [exact Ht|exact H|exact Ht|exact H].
  - (* variant *)
    destruct (eval en e) as [[v t]|] eqn:E; [|discriminate]. destruct (path_last path); [|discriminate].
    pose proof (eval_no_debug en e v t E) as Ht.
    destruct (peel v); try discriminate; try (eapply test_debug; [exact Ht|exact H]).
    destruct (String.eqb name s); [|eapply test_debug; [exact Ht|exact H]].
    destruct (pair_opts NElem bs args VRefV); [|discriminate]. rewrite run_fix_eq in H.
    eapply seq_pre_debug; eassumption.
  - (* struct *)
    destruct (eval en e) as [[v t]|] eqn:E; [|discriminate]. destruct (path_last path); [|discriminate].
    pose proof (eval_no_debug en e v t E) as Ht.
    destruct (peel v); try discriminate; try (eapply test_debug; [exact Ht|exact H]).
    destruct (String.eqb name s); [|eapply test_debug; [exact Ht|exact H]].
    destruct (rest || lists_all fs fields); [|discriminate].
    destruct (pair_fields fs fields); [|discriminate]. rewrite run_fix_eq in H.
    eapply seq_pre_debug; eassumption.
  - rewrite run_fix_eq in H. eapply run_list_debug; eassumption.
  - destruct (eval en e) as [[v t]|] eqn:E; [|discriminate]. destruct (peel v); try discriminate.
    destruct (pair_opts NTupleElem bs vs VRefV); [|discriminate]. rewrite run_fix_eq in H.
    eapply seq_pre_debug; [eapply eval_no_debug; exact E|eassumption|exact H].
  - destruct (eval en e) as [[v t]|] eqn:E; [|discriminate]. eapply test_debug; [eapply eval_no_debug; exact E|exact H].
  - (* slice *)
    destruct (eval en e) as [[v t]|] eqn:E; [|discriminate]. destruct (elements_of v); [|discriminate].
    pose proof (eval_no_debug en e v t E) as Ht.
    destruct (slice_match parts l) as [[bs|]|]; [| |discriminate].
    + rewrite run_fix_eq in H. eapply seq_pre_debug; eassumption.
    + eapply test_debug; [exact Ht|exact H].
  - destruct (eval en e) as [[v t]|] eqn:E; [|discriminate]. destruct (peel v); try discriminate.
    eapply test_debug; [eapply eval_no_debug; exact E|exact H].
  - destruct (eval en e) as [[v t]|] eqn:E; [|discriminate]. destruct (ueval (e_caller en) x); [|discriminate].
    destruct (peel v); try discriminate. destruct (peel v0); try discriminate.
    eapply test_debug; [eapply eval_no_debug; exact E|exact H].
  - destruct (eval en e) as [[v t]|] eqn:E; [|discriminate]. eapply test_debug; [eapply eval_no_debug; exact E|exact H].
  - destruct (eval en e) as [[v t]|] eqn:E; [|discriminate]. destruct (auto_deref v); try discriminate.
    eapply test_debug; [eapply eval_no_debug; exact E|exact H].
  - (* map entry *)
    destruct (eval en e) as [[v t]|] eqn:E; [|discriminate]. destruct (ueval (e_caller en) k); [|discriminate].
    pose proof (eval_no_debug en e v t E) as Ht.
    destruct (auto_deref v); try discriminate. destruct (map_get v0 kvs).
    + destruct (exec s _) as [[r2 t2]|] eqn:E2; [|discriminate]. cbn in H. inversion H; subst.
      rewrite cnt_app, Ht. cbn. eapply IHs; exact E2.
    + destruct (do_push en missing None) as [[r2 t2]|] eqn:E2; [|discriminate]. cbn in H. inversion H; subst.
      rewrite cnt_app, Ht. cbn. eapply do_push_debug; exact E2.
  - (* set: one evaluation of the collection; probe reports are discarded *)
    destruct (eval en e) as [[v t]|] eqn:E; [|discriminate]. destruct (elements_of v); [|discriminate].
    pose proof (eval_no_debug en e v t E) as Ht.
    destruct (all_some _); [|discriminate].
    destruct (set_match _ _ _); inversion H; subst; exact Ht.
Qed.

(* ---- who evaluates the asserted expression ----------------------------------- *)

Fixpoint root_free (e : vexpr) : bool :=
  match e with
  | VRoot _ => false
  | VBind _ | VFieldBind _ => true
  | VRef x | VField x _ | VDeref _ x | VMethod _ x _ _ _ | VAwait _ x | VNamed _ x _ _ | VUnnamed _ x _ | VIndex _ x _ => root_free x
  end.

Lemma eval_root_free en : forall e v t, root_free e = true -> eval en e = Some (v, t) -> cnt is_root_ev t = 0.
Proof.
  induction e; intros v t Hr H; cbn [eval root_free] in *; try discriminate.
  - destruct (lookup _ _); inversion H; reflexivity.
  - destruct (lookup _ _); inversion H; reflexivity.
  - destruct (eval en e) as [[w t0]|]; inversion H; subst. eapply IHe; [exact Hr|reflexivity].
  - destruct (eval en e) as [[w t0]|]; [|discriminate]. destruct f.
    + destruct (field_of w name); inversion H; subst. eapply IHe; [exact Hr|reflexivity].
    + destruct (elem_of w n); inversion H; subst. eapply IHe; [exact Hr|reflexivity].
  - destruct (eval en e) as [[w t0]|]; [|discriminate]. destruct w; inversion H; subst; eapply IHe; [exact Hr|reflexivity|exact Hr|reflexivity].
  - destruct (eval en e) as [[w t0]|]; [|discriminate].
    destruct (all_some _); [|discriminate]. destruct (method_sem m w l); inversion H; subst.
    rewrite cnt_app. rewrite (IHe w t0 Hr eq_refl). reflexivity.
  - destruct (eval en e) as [[w t0]|]; [|discriminate]. destruct (field_of w f); inversion H; subst. eapply IHe; [exact Hr|reflexivity].
  - destruct (eval en e) as [[w t0]|]; [|discriminate]. destruct (elem_of w i); inversion H; subst. eapply IHe; [exact Hr|reflexivity].
  - destruct (eval en e) as [[w t0]|]; [|discriminate].
    destruct (ueval (e_caller en) i) as [[k| | | | | | | | | | | |]|]; try discriminate.
    destruct (auto_deref w); try discriminate. destruct (Z.ltb k 0); [discriminate|].
    destruct (nth_error vs (Z.to_nat k)); inversion H; subst. rewrite cnt_app. rewrite (IHe w t0 Hr eq_refl). reflexivity.
Qed.

Definition push_root_free (p : push) : bool :=
  match ps_actual p with
  | ADebug e | ADebugRef e | AMapLen e => root_free e
  | ADebugActual | AMissingKey => true
  end.

Fixpoint stmt_root_free (s : stmt) : bool :=
  match s with
  | SNop | SPanic _ => true
  | SSimple _ e _ p | SString _ e _ _ p | SCmp _ _ e _ p | SUnit _ e _ p | SRange _ e _ _ p
  | SRegex _ e _ p | SLike _ e _ p | SClosure _ e _ p | SMapLen _ e _ p => root_free e && push_root_free p
  | SVariant _ e _ _ body p | SStruct _ e _ _ _ body p | SSlice e _ body p =>
      root_free e && push_root_free p && forallb stmt_root_free body
  | SSeq body => forallb stmt_root_free body
  | STuple e _ body => root_free e && forallb stmt_root_free body
  | SMapGet _ e _ body missing => root_free e && push_root_free missing && stmt_root_free body
  | SSet e preds _ _ => root_free e && forallb stmt_root_free preds
  end.

Lemma do_push_root en p a rep tr :
  push_root_free p = true -> do_push en p a = Some (rep, tr) -> cnt is_root_ev tr = 0.
Proof.
  unfold do_push, push_root_free. destruct (ps_actual p) as [e|e| |e|]; intros Hr.
  - destruct (eval en e) as [[v t]|] eqn:E; [|discriminate]. intros H; inversion H; subst.
    rewrite cnt_app, (eval_root_free en e v t Hr E). reflexivity.
  - destruct (eval en e) as [[v t]|] eqn:E; [|discriminate]. intros H; inversion H; subst.
    rewrite cnt_app, (eval_root_free en e v t Hr E). reflexivity.
  - destruct a; [|discriminate]. intros H; inversion H; reflexivity.
  - destruct (eval en e) as [[v t]|] eqn:E; [|discriminate]. destruct (auto_deref v); try discriminate.
    intros H; inversion H; subst. eapply eval_root_free; eassumption.
  - intros H; inversion H; reflexivity.
Qed.

Lemma test_root en r t p a rep tr :
  cnt is_root_ev t = 0 -> push_root_free p = true -> test en r t p a = Some (rep, tr) -> cnt is_root_ev tr = 0.
Proof.
  intros Ht Hp. unfold test. destruct r as [[|]|]; [| |discriminate].
  - intros H; inversion H; subst. exact Ht.
  - destruct (do_push en p a) as [[r1 t1]|] eqn:E; [|discriminate]. cbn. intros H; inversion H; subst.
    rewrite cnt_app, Ht. cbn. eapply do_push_root; eassumption.
Qed.

Definition root_quiet (s : stmt) : Prop :=
  stmt_root_free s = true -> forall en rep tr, exec s en = Some (rep, tr) -> cnt is_root_ev tr = 0.

Lemma run_list_root : forall body en rep tr,
  Forall root_quiet body -> forallb stmt_root_free body = true ->
  run_list body en = Some (rep, tr) -> cnt is_root_ev tr = 0.
Proof.
  induction body as [|x r IH]; intros en rep tr HF Hb H; cbn in H.
  - inversion H; reflexivity.
  - inversion HF as [|? ? Hx Hr]; subst. cbn in Hb. apply andb_prop in Hb as [Hb1 Hb2].
    destruct (exec x en) as [[r1 t1]|] eqn:E1; [|discriminate].
    destruct (run_list r en) as [[r2 t2]|] eqn:E2; [|discriminate]. cbn in H. inversion H; subst.
    rewrite cnt_app, (Hx Hb1 en r1 t1 E1), (IH en r2 t2 Hr Hb2 E2). reflexivity.
Qed.

Lemma seq_pre_root t body en rep tr :
  cnt is_root_ev t = 0 -> Forall root_quiet body -> forallb stmt_root_free body = true ->
  seq2 (Some ([], t)) (run_list body en) = Some (rep, tr) -> cnt is_root_ev tr = 0.
Proof.
  intros Ht HF Hb H. destruct (run_list body en) as [[r2 t2]|] eqn:E; [|discriminate]. cbn in H. inversion H; subst.
  rewrite cnt_app, Ht. cbn. eapply run_list_root; eassumption.
Qed.

Ltac split_rf H := repeat match type of H with (_ && _) = true => let H2 := fresh "Hrf" in apply andb_prop in H as [H H2] end.

(* code whose value expressions do not mention the asserted expression never evaluates it *)
Theorem exec_root_free : forall s, root_quiet s.
Proof.
  induction s as [|m|sp e pt p|sp e l lsp p|sp op e x p|sp e path p|sp e path bs body p IHb|sp e path fs rest body p IHb
                 |body IHb|e bs body IHb|sp e r parts p|e parts body p IHb|sp e pat p|sp e x p|sp e c p|sp e n p
                 |sp e k s missing IHs|e preds rest node IHb] using stmt_ind'; intros Hrf en rep tr H; cbn [exec] in H; cbn [stmt_root_free] in Hrf.
  - inversion H; reflexivity.
  - discriminate.
  - split_rf Hrf. destruct (eval en e) as [[v t]|] eqn:E; [|discriminate]. eapply test_root; [eapply eval_root_free; eassumption|eassumption|exact H].
  - split_rf Hrf. destruct (eval en e) as [[v t]|] eqn:E; [|discriminate]. destruct (parse_str_lit l); [|discriminate].
    destruct (peel v); try discriminate. eapply test_root; [eapply eval_root_free; eassumption|eassumption|exact H].
  - split_rf Hrf. destruct (eval en e) as [[v t]|] eqn:E; [|discriminate]. destruct (ueval (e_caller en) x); [|discriminate].
    eapply test_root; [eapply eval_root_free; eassumption|eassumption|exact H].
  - split_rf Hrf. destruct (eval en e) as [[v t]|] eqn:E; [|discriminate]. destruct (path_last path); [|discriminate].
    pose proof (eval_root_free en e v t Hrf E) as Ht.
    destruct (path_single path && negb (existsb (String.eqb s) (e_units en))); [inversion H; subst; exact Ht|].
    destruct (peel v); try discriminate; try (eapply test_root; [exact Ht|eassumption|exact H]).
    destruct args; eapply test_root; [exact Ht|eassumption|exact H|exact Ht|eassumption|exact H].
  - split_rf Hrf. destruct (eval en e) as [[v t]|] eqn:E; [|discriminate]. destruct (path_last path); [|discriminate].
    pose proof (eval_root_free en e v t Hrf E) as Ht.
    destruct (peel v); try discriminate; try (eapply test_root; [exact Ht|eassumption|exact H]).
    destruct (String.eqb name s); [|eapply test_root; [exact Ht|eassumption|exact H]].
    destruct (pair_opts NElem bs args VRefV); [|discriminate]. rewrite run_fix_eq in H.
    eapply seq_pre_root; eassumption.
  - split_rf Hrf. destruct (eval en e) as [[v t]|] eqn:E; [|discriminate]. destruct (path_last path); [|discriminate].
    pose proof (eval_root_free en e v t Hrf E) as Ht.
    destruct (peel v); try discriminate; try (eapply test_root; [exact Ht|eassumption|exact H]).
    destruct (String.eqb name s); [|eapply test_root; [exact Ht|eassumption|exact H]].
    destruct (rest || lists_all fs fields); [|discriminate].
    destruct (pair_fields fs fields); [|discriminate]. rewrite run_fix_eq in H.
    eapply seq_pre_root; eassumption.
  - rewrite run_fix_eq in H. eapply run_list_root; eassumption.
  - split_rf Hrf. destruct (eval en e) as [[v t]|] eqn:E; [|discriminate]. destruct (peel v); try discriminate.
    destruct (pair_opts NTupleElem bs vs VRefV); [|discriminate]. rewrite run_fix_eq in H.
    eapply seq_pre_root; [eapply eval_root_free; eassumption|eassumption|eassumption|exact H].
  - split_rf Hrf. destruct (eval en e) as [[v t]|] eqn:E; [|discriminate]. eapply test_root; [eapply eval_root_free; eassumption|eassumption|exact H].
  - split_rf Hrf. destruct (eval en e) as [[v t]|] eqn:E; [|discriminate]. destruct (elements_of v); [|discriminate].
    pose proof (eval_root_free en e v t Hrf E) as Ht.
    destruct (slice_match parts l) as [[bs|]|]; [| |discriminate].
    + rewrite run_fix_eq in H. eapply seq_pre_root; eassumption.
    + eapply test_root; [exact Ht|eassumption|exact H].
  - split_rf Hrf. destruct (eval en e) as [[v t]|] eqn:E; [|discriminate]. destruct (peel v); try discriminate.
    eapply test_root; [eapply eval_root_free; eassumption|eassumption|exact H].
  - split_rf Hrf. destruct (eval en e) as [[v t]|] eqn:E; [|discriminate]. destruct (ueval (e_caller en) x); [|discriminate].
    destruct (peel v); try discriminate. destruct (peel v0); try discriminate.
    eapply test_root; [eapply eval_root_free; eassumption|eassumption|exact H].
  - split_rf Hrf. destruct (eval en e) as [[v t]|] eqn:E; [|discriminate]. eapply test_root; [eapply eval_root_free; eassumption|eassumption|exact H].
  - split_rf Hrf. destruct (eval en e) as [[v t]|] eqn:E; [|discriminate]. destruct (auto_deref v); try discriminate.
    eapply test_root; [eapply eval_root_free; eassumption|eassumption|exact H].
  - split_rf Hrf. destruct (eval en e) as [[v t]|] eqn:E; [|discriminate]. destruct (ueval (e_caller en) k); [|discriminate].
    pose proof (eval_root_free en e v t Hrf E) as Ht.
    destruct (auto_deref v); try discriminate. destruct (map_get v0 kvs).
    + destruct (exec s _) as [[r2 t2]|] eqn:E2; [|discriminate]. cbn in H. inversion H; subst.
      rewrite cnt_app, Ht. cbn. eapply IHs; eassumption.
    + destruct (do_push en missing None) as [[r2 t2]|] eqn:E2; [|discriminate]. cbn in H. inversion H; subst.
      rewrite cnt_app, Ht. cbn. eapply do_push_root; eassumption.
  - split_rf Hrf. destruct (eval en e) as [[v t]|] eqn:E; [|discriminate]. destruct (elements_of v); [|discriminate].
    pose proof (eval_root_free en e v t Hrf E) as Ht.
    destruct (all_some _); [|discriminate].
    destruct (set_match _ _ _); inversion H; subst; exact Ht.
Qed.

(* ---- the expansion hands its children bindings, never the asserted expression ---- *)

Lemma apply_ops_root_free : forall o base, root_free base = true -> root_free (apply_ops base o) = true.
Proof.
  fix IH 1. intros o base H. destruct o as [count sp|m nsp sp args|sp|f nsp sp|i sp|ix sp|sp ops]; cbn [apply_ops root_free]; auto.
  - induction count as [|c IHc]; cbn; auto.
  - revert base H. induction ops as [|x r IHr]; intros base H; cbn; auto.
Qed.

Lemma with_tail_root_free j ops base noops fpat :
  root_free base = true -> root_free noops = true ->
  (forall e, root_free e = true -> stmt_root_free (expand j fpat e) = true) ->
  stmt_root_free (with_tail ops base noops (expand j fpat)) = true.
Proof.
  intros Hb Hn H. unfold with_tail. destruct (tail_operations ops) as [|t|]; cbn; auto.
  destruct (ops_index_ok t); [apply H; apply apply_ops_root_free; exact Hb|reflexivity].
Qed.

Lemma forallb_flat_mapi {A} (f : nat -> A -> list stmt) : forall (l : list A) i,
  (forall k x, In x l -> forallb stmt_root_free (f k x) = true) ->
  forallb stmt_root_free (flat_map (fun x => x) (mapi_from f i l)) = true.
Proof.
  induction l as [|x l IH]; intros i H; cbn; [reflexivity|].
  rewrite forallb_app, (H i x (or_introl eq_refl)), IH; [reflexivity|]. intros k y Hy. apply H. right; exact Hy.
Qed.

Theorem expand_root_free : forall j p e, root_free e = true -> stmt_root_free (expand j p e) = true.
Proof.
  intros j p; induction p as
      [id x|id l s v|id op s x|id x parts|id x s|id x|id|id c
      |id path rest fields IH|id path elems IH|id sp elems IH|id sp elems IH|id sp rest elems IH|id sp rest entries IH]
      using pat_ind'; intros e He; cbn [expand stmt_root_free push_root_free mk_push ps_actual]; rewrite ?He; try reflexivity.
  - (* struct *)
    destruct path as [path|].
    + destruct (existsb _ _); [reflexivity|]. cbn [stmt_root_free push_root_free mk_push ps_actual]. rewrite He. cbn.
      apply forallb_forall. intros s Hs. apply in_map_iff in Hs as ([ops fpat] & <- & Hin). cbn.
      destruct (root_field_name ops); [|reflexivity]. apply with_tail_root_free; try reflexivity.
      intros e' He'. apply (proj1 (Forall_forall _ _) IH (ops, fpat) Hin). exact He'.
    + cbn [stmt_root_free]. apply forallb_forall. intros s Hs. apply in_map_iff in Hs as ([ops fpat] & <- & Hin). cbn.
      destruct (root_field_name ops); [|reflexivity]. destruct (field_name_index_ok f); [|reflexivity].
      apply with_tail_root_free; cbn; try exact He.
      intros e' He'. apply (proj1 (Forall_forall _ _) IH (ops, fpat) Hin). exact He'.
  - (* enum *)
    destruct elems as [|el elems]; cbn [stmt_root_free push_root_free mk_push ps_actual]; rewrite He; [reflexivity|]. cbn [andb].
    unfold mapi. apply forallb_flat_mapi. intros k [ops ep] Hin. destruct (is_wild ep); [reflexivity|].
    assert (Hp : forall e', root_free e' = true -> stmt_root_free (expand j ep e') = true)
      by (intros e' He'; apply (proj1 (Forall_forall _ _) IH (ops, ep) Hin); exact He').
    destruct ops; cbn; rewrite ?andb_true_r; [apply with_tail_root_free; try reflexivity; exact Hp|apply Hp; reflexivity].
  - (* tuple *)
    cbn [andb]. unfold mapi. apply forallb_flat_mapi. intros k [ops ep] Hin. destruct (is_wild ep); [reflexivity|].
    assert (Hp : forall e', root_free e' = true -> stmt_root_free (expand j ep e') = true)
      by (intros e' He'; apply (proj1 (Forall_forall _ _) IH (ops, ep) Hin); exact He').
    destruct ops; cbn; rewrite ?andb_true_r; [apply with_tail_root_free; try reflexivity; exact Hp|apply Hp; reflexivity].
  - (* slice *)
    cbn [andb]. unfold mapi. apply forallb_flat_mapi. intros k el Hin. destruct (is_rest_range el || is_wild el); [reflexivity|].
    cbn. rewrite andb_true_r. apply (proj1 (Forall_forall _ _) IH el Hin). reflexivity.
  - (* set *)
    cbn [andb]. apply forallb_forall. intros s Hs. apply in_map_iff in Hs as (el & <- & Hin).
    apply (proj1 (Forall_forall _ _) IH el Hin). reflexivity.
  - (* map *)
    rewrite forallb_app. apply andb_true_intro. split.
    + destruct rest; cbn; rewrite ?He; reflexivity.
    + apply forallb_forall. intros s Hs. apply in_map_iff in Hs as ([k vp] & <- & Hin). cbn. rewrite He. cbn.
      apply (proj1 (Forall_forall _ _) IH (k, vp) Hin). reflexivity.
Qed.

Theorem children_do_not_evaluate_root : forall j p e en rep tr,
  root_free e = true -> exec (expand j p e) en = Some (rep, tr) -> cnt is_root_ev tr = 0.
Proof. intros j p e en rep tr He H. eapply exec_root_free; [apply expand_root_free; exact He|exact H]. Qed.

(* ---- how often the asserted expression itself is evaluated -------------------- *)

(* forms that are meant to evaluate the expression they are handed exactly once *)
Definition once_kind (p : pat) : bool :=
  match p with
  | PWild _ | PMap _ _ _ _ | PStruct _ None _ _ => false
  | _ => true
  end.

Definition roots (o : outcome) : option nat := option_map (fun rt => cnt is_root_ev (snd rt)) o.

(* the whole assertion with a root `_`: nothing reported, nothing formatted, the asserted expression evaluated exactly once *)
Theorem root_wildcard_evaluates_once : forall j id ts en,
  exec_top j (PWild id) ts en = Some ([], [EvRoot]).
Proof. reflexivity. Qed.

(* for every other root pattern the whole assertion is the pattern's own expansion *)
Theorem exec_top_is_exec : forall j p ts en, is_wild p = false -> exec_top j p ts en = exec (expand j p (VRoot ts)) en.
Proof. intros j p ts en H. unfold exec_top. rewrite H. reflexivity. Qed.

Lemma test_root_count en r ts p rep tr sp id x :
  p = mk_push sp id (ADebug (VRoot ts)) x ->
  test en r [EvRoot] p None = Some (rep, tr) ->
  (rep = [] /\ cnt is_root_ev tr = 1) \/ (rep <> [] /\ cnt is_root_ev tr = 2).
Proof.
  intros -> H. unfold test in H. destruct r as [[|]|]; [| |discriminate].
  - inversion H; subst. left; split; reflexivity.
  - unfold do_push, mk_push in H; cbn in H. inversion H; subst. right; split; [discriminate|reflexivity].
Qed.

Lemma pre_body_root_count en body rep tr :
  forallb stmt_root_free body = true ->
  seq2 (Some ([], [EvRoot])) (run_list body en) = Some (rep, tr) -> cnt is_root_ev tr = 1.
Proof.
  intros Hb H. destruct (run_list body en) as [[r2 t2]|] eqn:E; [|discriminate]. cbn in H. inversion H; subst.
  cbn [cnt filter is_root_ev List.length]. f_equal.
  eapply run_list_root; [|exact Hb|exact E]. apply Forall_forall. intros s _. apply exec_root_free.
Qed.

Lemma elems_root_free j (mk : nat -> name) : forall (elems : list (option fop * pat)) i,
  forallb stmt_root_free (flat_map (fun x => x) (mapi_from (elem_stmts j mk) i elems)) = true.
Proof.
  intros elems i. apply forallb_flat_mapi. intros k [ops ep] _. unfold elem_stmts. destruct (is_wild ep); [reflexivity|].
  destruct ops; cbn; rewrite andb_true_r.
  - apply with_tail_root_free; try reflexivity. intros e' He'. apply expand_root_free; exact He'.
  - apply expand_root_free; reflexivity.
Qed.

(* C08: for every form other than `_`, maps and wildcard structs (the known findings), the
   asserted expression is evaluated once when the form's own test succeeds — in particular on
   every passing run — and exactly twice when the root form itself is reported *)
Theorem root_eval_count : forall j p ts en rep tr,
  once_kind p = true ->
  exec (expand j p (VRoot ts)) en = Some (rep, tr) ->
  (cnt is_root_ev tr = 1 \/ (rep <> [] /\ cnt is_root_ev tr = 2)).
Proof.
  intros j p ts en rep tr Hk H.
  destruct p as [id x|id l lsp sv|id op osp x|id x parts|id pattern psp|id x|id|id c
                |id path rest fields|id path elems|id sp elems|id sp elems|id sp rest elems|id sp rest entries];
    try discriminate; cbn [expand exec eval] in H.
  - destruct (test_root_count _ _ _ _ _ _ _ _ _ eq_refl H) as [[_ ?]|[? ?]]; auto.
  - destruct (parse_str_lit l); [|discriminate]. destruct (peel (e_root en)); try discriminate.
    unfold test in H. destruct (String.eqb s s0); [inversion H; subst; left; reflexivity|].
    unfold do_push, mk_push in H; cbn in H. inversion H; subst. left; reflexivity.
  - destruct (ueval (e_caller en) x); [|discriminate].
    destruct (test_root_count _ _ _ _ _ _ _ _ _ eq_refl H) as [[_ ?]|[? ?]]; auto.
  - destruct (test_root_count _ _ _ _ _ _ _ _ _ eq_refl H) as [[_ ?]|[? ?]]; auto.
  - destruct (peel (e_root en)); try discriminate.
    destruct (test_root_count _ _ _ _ _ _ _ _ _ eq_refl H) as [[_ ?]|[? ?]]; auto.
  - destruct (ueval (e_caller en) x); [|discriminate]. destruct (peel (e_root en)); try discriminate. destruct (peel v); try discriminate.
    destruct (test_root_count _ _ _ _ _ _ _ _ _ eq_refl H) as [[_ ?]|[? ?]]; auto.
  - destruct (test_root_count _ _ _ _ _ _ _ _ _ eq_refl H) as [[_ ?]|[? ?]]; auto.
  - (* named struct *)
    destruct path as [path|]; [|discriminate]. destruct (existsb _ _); [discriminate|]. cbn [exec eval] in H.
    destruct (path_last path); [|discriminate].
    destruct (peel (e_root en)); try discriminate;
      try (destruct (test_root_count _ _ _ _ _ _ _ _ _ eq_refl H) as [[_ ?]|[? ?]]; auto; fail).
    destruct (String.eqb name s); [|destruct (test_root_count _ _ _ _ _ _ _ _ _ eq_refl H) as [[_ ?]|[? ?]]; auto].
    destruct (rest || _); [|discriminate]. destruct (pair_fields _ _); [|discriminate]. rewrite run_fix_eq in H.
    left. eapply pre_body_root_count; [|exact H].
    apply forallb_forall. intros st Hs. apply in_map_iff in Hs as ([ops fpat] & <- & Hin). cbn.
    destruct (root_field_name ops); [|reflexivity]. apply with_tail_root_free; try reflexivity.
    intros e' He'. apply expand_root_free; exact He'.
  - (* enum *)
    destruct elems as [|el elems]; cbn [exec eval] in H.
    + destruct (path_last path); [|discriminate].
      destruct (path_single path && _); [inversion H; subst; left; reflexivity|].
      destruct (peel (e_root en)); try discriminate;
        try (destruct (test_root_count _ _ _ _ _ _ _ _ _ eq_refl H) as [[_ ?]|[? ?]]; auto; fail).
      destruct args; destruct (test_root_count _ _ _ _ _ _ _ _ _ eq_refl H) as [[_ ?]|[? ?]]; auto.
    + destruct (path_last path); [|discriminate].
      destruct (peel (e_root en)); try discriminate;
        try (destruct (test_root_count _ _ _ _ _ _ _ _ _ eq_refl H) as [[_ ?]|[? ?]]; auto; fail).
      destruct (String.eqb name s); [|destruct (test_root_count _ _ _ _ _ _ _ _ _ eq_refl H) as [[_ ?]|[? ?]]; auto].
      destruct (pair_opts _ _ _ _); [|discriminate]. rewrite run_fix_eq in H.
      left. eapply pre_body_root_count; [|exact H]. unfold mapi. apply (elems_root_free j NElem).
  - (* tuple *)
    destruct (peel (e_root en)); try discriminate. destruct (pair_opts _ _ _ _); [|discriminate]. rewrite run_fix_eq in H.
    left. eapply pre_body_root_count; [|exact H]. unfold mapi. apply (elems_root_free j NTupleElem).
  - (* slice *)
    destruct (elements_of (e_root en)); [|discriminate].
    destruct (slice_match _ _) as [[bs|]|]; [| |discriminate].
    + rewrite run_fix_eq in H. left. eapply pre_body_root_count; [|exact H].
      unfold mapi. apply forallb_flat_mapi. intros k el _. destruct (is_rest_range el || is_wild el); [reflexivity|].
      cbn. rewrite andb_true_r. apply expand_root_free. reflexivity.
    + unfold test, do_push, mk_push in H; cbn in H. inversion H; subst. right; split; [discriminate|reflexivity].
  - (* set *)
    destruct (elements_of (e_root en)); [|discriminate]. destruct (all_some _); [|discriminate].
    destruct (set_match _ _ _); inversion H; subst; left; reflexivity.
Qed.

Corollary root_once_on_pass : forall j p ts en tr,
  once_kind p = true ->
  exec (expand j p (VRoot ts)) en = Some ([], tr) -> cnt is_root_ev tr = 1.
Proof.
  intros j p ts en tr Hk H. destruct (root_eval_count j p ts en [] tr Hk H) as [?|[Hne _]]; [assumption|contradiction].
Qed.
