(* LocErrP.v — where the front end's compile errors point (C13): every error the parser returns
   carries a span that satisfies an arbitrary "allowed" predicate A, provided
     - A holds of the call site, of every span of every token of the invocation (for a group: its
       whole, opening and closing spans), and
     - syn's own parsers, run on tokens whose spans satisfy A, report only spans satisfying A.
   With A := "is the call site, or starts where a token of the invocation starts" this is the
   property's "attached to that invocation: to the offending token where there is one, otherwise
   to the call".  For every token list, fuel and oracle behaviour satisfying the second condition. *)
From Coq Require Import Lia.
From ASModel Require Import Base Tokens Report Ast IR Expand Nodes Parser FrontEnd.
From ASProofs Require Import PatInd ParserP RejectP FuelP.

(* every span a token list carries, nested groups included *)
Fixpoint tok_spans (t : ttree) : list span :=
  match t with
  | TTGroup _ sp spo spc body =>
      sp :: spo :: spc :: (fix go (l : list ttree) : list span := match l with [] => [] | x :: r => tok_spans x ++ go r end) body
  | _ => [tspan t]
  end.
Fixpoint all_spans (l : list ttree) : list span :=
  match l with [] => [] | x :: r => tok_spans x ++ all_spans r end.

Lemma tok_spans_group d sp spo spc body : tok_spans (TTGroup d sp spo spc body) = sp :: spo :: spc :: all_spans body.
Proof. cbn [tok_spans]. do 3 f_equal. Qed.

Section ErrLoc.
  Variable A : span -> Prop.
  Hypothesis A_call : A SCall.

  Definition okl (l : list ttree) : Prop := forall s, In s (all_spans l) -> A s.
  Definition oku (u : option span) : Prop := forall s, u = Some s -> A s.

  Lemma okl_nil : okl [].
  Proof. intros s []. Qed.
  Lemma okl_cons t l : okl (t :: l) -> okl l.
  Proof. intros H s Hs. apply H. cbn. apply in_or_app. right. exact Hs. Qed.
  Lemma okl_head_open t l : okl (t :: l) -> A (tspan_open t) /\ A (tspan t).
  Proof.
    intros H. assert (Hin : forall s, In s (tok_spans t) -> A s).
    { intros s Hs. apply H. cbn [all_spans]. apply in_or_app. left. exact Hs. }
    destruct t as [s0 sp0|c0 j0 sp0|k0 tx0 sp0|d sp spo spc body]; cbn [tspan_open tspan].
    - split; apply Hin; left; reflexivity.
    - split; apply Hin; left; reflexivity.
    - split; apply Hin; left; reflexivity.
    - rewrite tok_spans_group in Hin. split; apply Hin; [right; left; reflexivity|left; reflexivity].
  Qed.
  Lemma okl_skipn n : forall l, okl l -> okl (skipn n l).
  Proof. induction n as [|n IH]; intros l H; [exact H|]. destruct l; [exact H|]. apply IH. eapply okl_cons. exact H. Qed.
  Lemma okl_group d sp spo spc body l : okl (TTGroup d sp spo spc body :: l) -> A spc /\ okl body.
  Proof.
    intros H. split.
    - apply H. cbn [all_spans]. apply in_or_app. left. rewrite tok_spans_group. right. right. left. reflexivity.
    - intros s Hs. apply H. cbn [all_spans]. apply in_or_app. left. rewrite tok_spans_group. right. right. right. exact Hs.
  Qed.

  Lemma A_here sc st : A sc -> okl (toks st) -> A (here sc st).
  Proof. intros Hs Hl. unfold here. destruct (toks st) as [|t r]; [exact Hs|]. apply (okl_head_open t r Hl). Qed.

  Lemma oku_first_wins a b : oku a -> oku b -> oku (first_wins a b).
  Proof. intros Ha Hb. destruct a; cbn; [exact Ha|exact Hb]. Qed.

  (* the specification: with an allowed scope, allowed tokens and an allowed record, every error is allowed, the
     result satisfies Q, and the state stays allowed *)
  Definition espec {X} (m : M X) (Q : X -> Prop) : Prop :=
    forall sc st, A sc -> okl (toks st) -> oku (unx st) ->
      match m sc st with
      | POk a st' => Q a /\ okl (toks st') /\ oku (unx st')
      | PErr sp _ => A sp
      | _ => True
      end.

  Lemma espec_ret {X} (a : X) (Q : X -> Prop) : Q a -> espec (ret a) Q.
  Proof. intros H sc st Hs Hl Hu. cbn. auto. Qed.
  Lemma espec_bind {X Y} (m : M X) (k : X -> M Y) (P : X -> Prop) (Q : Y -> Prop) :
    espec m P -> (forall a, P a -> espec (k a) Q) -> espec (bind m k) Q.
  Proof.
    intros Hm Hk sc st Hs Hl Hu. unfold bind. specialize (Hm sc st Hs Hl Hu).
    destruct (m sc st) as [a st'| | |]; try exact I; try exact Hm.
    destruct Hm as (Pa & Hl' & Hu'). exact (Hk a Pa sc st' Hs Hl' Hu').
  Qed.
  Lemma espec_weaken {X} (m : M X) (P Q : X -> Prop) : espec m P -> (forall a, P a -> Q a) -> espec m Q.
  Proof.
    intros Hm H sc st Hs Hl Hu. specialize (Hm sc st Hs Hl Hu). destruct (m sc st); auto.
    destruct Hm as (Pa & R). split; [apply H; exact Pa|exact R].
  Qed.
  Lemma espec_fail {X} (Q : X -> Prop) : espec fail Q.
  Proof. intros sc st Hs Hl Hu. cbn. apply A_here; assumption. Qed.
  Lemma espec_fail_at {X} sp (Q : X -> Prop) : A sp -> espec (fail_at sp) Q.
  Proof. intros H sc st Hs Hl Hu. exact H. Qed.
  Lemma espec_panic {X} s (Q : X -> Prop) : espec (panic s) Q.
  Proof. intros sc st Hs Hl Hu. exact I. Qed.
  Lemma espec_fuel {X} (Q : X -> Prop) : espec out_of_fuel Q.
  Proof. intros sc st Hs Hl Hu. exact I. Qed.
  Lemma espec_cur_span : espec cur_span A.
  Proof. intros sc st Hs Hl Hu. cbn. split; [apply A_here; assumption|auto]. Qed.
  Lemma espec_get_toks : espec get_toks okl.
  Proof. intros sc st Hs Hl Hu. cbn. auto. Qed.
  Lemma espec_advance n : espec (advance n) (fun _ => True).
  Proof. intros sc st Hs Hl Hu. cbn. split; [exact I|]. split; [apply okl_skipn; exact Hl|exact Hu]. Qed.
  Lemma espec_fresh : espec fresh (fun _ => True).
  Proof. intros sc st Hs Hl Hu. cbn. auto. Qed.
  Lemma espec_is_empty : espec is_empty (fun _ => True).
  Proof. intros sc st Hs Hl Hu. cbn. auto. Qed.
  Lemma espec_peek f : espec (peek f) (fun _ => True).
  Proof. intros sc st Hs Hl Hu. cbn. auto. Qed.
  Lemma espec_p_punct s : espec (p_punct s) (fun _ => True).
  Proof.
    intros sc st Hs Hl Hu. unfold p_punct, bind, get_toks. destruct (peek_punct s (toks st)); cbn.
    - split; [exact I|]. split; [apply okl_skipn; exact Hl|exact Hu].
    - apply A_here; assumption.
  Qed.
  Lemma espec_in_group {X} d (body : M X) (Q : X -> Prop) :
    espec body Q -> espec (in_group d body) (fun g => A (snd (fst (fst g))) /\ Q (snd g)).
  Proof.
    intros Hb sc st Hs Hl Hu. unfold in_group.
    pose proof (A_here sc st Hs Hl) as Hh.
    destruct (toks st) as [|t r] eqn:Ht; [exact Hh|].
    destruct t as [s0 sp0|c0 j0 sp0|k0 tx0 sp0|d' sp spo spc inner]; try exact Hh.
    destruct (okl_head_open _ r Hl) as [Hopen Hwhole]. cbn [tspan_open tspan] in Hopen, Hwhole.
    destruct (delim_eqb d d'); [|exact Hopen].
    destruct (okl_group _ _ _ _ _ _ Hl) as [Hc Hin].
    match goal with |- context [body ?u ?v] => specialize (Hb u v Hc Hin Hu); destruct (body u v) as [x stb| | |] end;
      try exact I; try exact Hb.
    destruct Hb as (Qx & Hlb & Hub). cbn. split; [split; [exact Hopen|exact Qx]|].
    split; [eapply okl_cons; exact Hl|]. apply oku_first_wins; [exact Hub|].
    intros s E. destruct (toks stb) as [|t2 r2] eqn:Hb2; [discriminate|]. inversion E; subst. apply (okl_head_open _ r2 Hlb).
  Qed.
  Lemma espec_fork {X} (m : M X) : espec (fork m) (fun _ => True).
  Proof.
    intros sc st Hs Hl Hu. unfold fork.
    match goal with |- context [m ?u ?v] => destruct (m u v) end; try exact I; cbn; auto.
  Qed.

  Hint Resolve espec_fail espec_panic espec_fuel espec_fresh espec_is_empty espec_peek espec_p_punct espec_advance
       espec_fork : edb.

  Variable regex join_ok : bool.
  Variable parse_expr : list ttree -> ores expr_ok.
  Variable parse_path : list ttree -> ores path_ok.
  Variable parse_closure : list ttree -> ores closure_ok.
  (* syn's parsers, run on allowed tokens, report allowed spans *)
  Hypothesis Hexpr_err : forall l sp, okl l -> parse_expr l = OErr (OErrAt sp) -> A sp.
  Hypothesis Hexpr_ok : forall l r, okl l -> parse_expr l = OOk r -> oku (eo_unx r) /\ A (u_span (eo_u r)).
  Hypothesis Hpath_err : forall l sp, okl l -> parse_path l = OErr (OErrAt sp) -> A sp.
  Hypothesis Hpath_ok : forall l r, okl l -> parse_path l = OOk r -> oku (po_unx r).
  Hypothesis Hclosure_err : forall l sp, okl l -> parse_closure l = OErr (OErrAt sp) -> A sp.
  Hypothesis Hclosure_ok : forall l c, okl l -> parse_closure l = OOk c -> oku (co_unx c) /\ A (co_inputs_span c).

  Notation p_expr := (p_expr parse_expr).
  Notation p_path := (p_path parse_path).
  Notation p_closure := (p_closure parse_closure).

  Lemma espec_p_expr : espec p_expr (fun r => A (u_span (eo_u r))).
  Proof.
    intros sc st Hs Hl Hu. unfold Parser.p_expr. destruct (parse_expr (toks st)) as [r|e] eqn:E.
    - destruct (Hexpr_ok _ _ Hl E) as [H1 H2]. cbn. split; [exact H2|]. split; [apply okl_skipn; exact Hl|apply oku_first_wins; assumption].
    - destruct e; cbn; [exact Hs|exact (Hexpr_err _ _ Hl E)].
  Qed.
  Lemma espec_p_path : espec p_path (fun _ => True).
  Proof.
    intros sc st Hs Hl Hu. unfold Parser.p_path. destruct (parse_path (toks st)) as [r|e] eqn:E.
    - cbn. split; [exact I|]. split; [apply okl_skipn; exact Hl|apply oku_first_wins; [exact Hu|exact (Hpath_ok _ _ Hl E)]].
    - destruct e; cbn; [exact Hs|exact (Hpath_err _ _ Hl E)].
  Qed.
  Lemma espec_p_closure : espec p_closure (fun c => A (co_inputs_span c)).
  Proof.
    intros sc st Hs Hl Hu. unfold Parser.p_closure. destruct (parse_closure (toks st)) as [c|e] eqn:E.
    - destruct (Hclosure_ok _ _ Hl E) as [H1 H2]. cbn. split; [exact H2|]. split; [apply okl_skipn; exact Hl|apply oku_first_wins; assumption].
    - destruct e; cbn; [exact Hs|exact (Hclosure_err _ _ Hl E)].
  Qed.
  Lemma espec_true {X} (m : M X) (Q : X -> Prop) : espec m Q -> espec m (fun _ => True).
  Proof. intros H. eapply espec_weaken; [exact H|auto]. Qed.

  Hint Resolve espec_p_expr espec_p_path espec_p_closure espec_cur_span espec_get_toks : edb.

  Tactic Notation "ebind" ident(x) ident(Hx) := eapply espec_bind; [solve [eauto with edb] | intros x Hx].
  Tactic Notation "ebind_" := eapply espec_bind; [solve [eauto with edb] | intros ? _].

  Lemma okl_first_span (ts : list ttree) t r : okl ts -> ts = t :: r -> A (tspan t) /\ A (tspan_open t).
  Proof. intros H ->. destruct (okl_head_open t r H). auto. Qed.

  Lemma espec_p_field_name : espec p_field_name (fun _ => True).
  Proof.
    intros sc st Hs Hl Hu. unfold p_field_name. pose proof (A_here sc st Hs Hl) as Hh.
    destruct (toks st) as [|t r] eqn:Ht; [exact Hh|].
    destruct (okl_head_open _ r Hl) as [Ho Hw].
    destruct t as [s sp| |k tx sp|]; try exact Hh.
    - destruct (is_keyword s); [exact Hw|]. cbn. split; [exact I|]. split; [eapply okl_cons; exact Hl|exact Hu].
    - destruct k as [|[n|]| |]; try exact Hh; try exact Hw.
      destruct (index_fits n); [|exact Hw]. cbn. split; [exact I|]. split; [eapply okl_cons; exact Hl|exact Hu].
  Qed.
  Hint Resolve espec_p_field_name : edb.

  Lemma espec_p_args f : espec (p_args parse_expr f) (fun _ => True).
  Proof.
    induction f as [|f IH]; cbn [p_args]; [apply espec_fuel|].
    ebind e He. destruct e; [apply espec_ret; exact I|].
    ebind r Hr. ebind c Hc. destruct c; [|apply espec_ret; exact I].
    ebind_. eapply espec_bind; [exact IH|]. intros more _. apply espec_ret. exact I.
  Qed.

  Lemma espec_p_dot_op f : espec (p_dot_op parse_expr f) (fun _ => True).
  Proof.
    unfold p_dot_op. ebind dot Hdot. ebind_. ebind ts Hts.
    destruct ts as [|t r]; [apply espec_fail|].
    destruct (okl_head_open _ _ Hts) as [Ho Hw].
    destruct t as [s sp|c j sp|k text sp|d sp spo spc body].
    - destruct (String.eqb s "await"); [ebind_; apply espec_ret; exact I|].
      destruct (is_keyword s); [apply espec_fail|].
      ebind_. ebind paren Hp. destruct paren; [|apply espec_ret; exact I].
      eapply espec_bind; [apply espec_in_group; apply espec_p_args|]. intros g _. apply espec_ret. exact I.
    - destruct r as [|t2 r2]; [apply espec_fail|].
      destruct t2 as [| |k2 text2 sp2|]; try apply espec_fail.
      destruct k2; try apply espec_fail; destruct (Ascii.eqb c "-"); try apply espec_fail; apply espec_fail_at; assumption.
    - destruct k as [v|u| |]; try apply espec_fail.
      + destruct u as [n|]; [|apply espec_fail_at; exact Hw].
        destruct (index_fits n); [|apply espec_fail_at; exact Hw]. ebind_. apply espec_ret. exact I.
      + destruct (split_once_dot text) as [[fa fb]|]; [|apply espec_fail_at; exact Hdot].
        destruct (parse_usize fa) as [ia|]; [|apply espec_fail_at; exact Hdot].
        destruct (parse_usize fb) as [ib|]; [|apply espec_fail_at; exact Hdot].
        destruct (index_fits ia && index_fits ib); [|apply espec_fail_at; exact Hdot].
        ebind_. apply espec_ret. exact I.
    - apply espec_fail.
  Qed.

  Lemma espec_p_one_op f : espec (p_one_op parse_expr f) (fun _ => True).
  Proof.
    unfold p_one_op. ebind ts Hts.
    destruct (peek_punct "." ts); [apply espec_p_dot_op|].
    destruct (peek_group DBracket ts); [|apply espec_fail].
    eapply espec_bind; [apply espec_in_group; apply espec_p_expr|]. intros g _.
    destruct g as [[[? ?] ?] ?]. apply espec_ret. exact I.
  Qed.

  Lemma espec_p_ops_loop f : espec (p_ops_loop parse_expr f) (fun _ => True).
  Proof.
    induction f as [|f IH]; cbn [p_ops_loop]; [apply espec_fuel|].
    ebind ts Hts. destruct (peek_punct "." ts || peek_group DBracket ts); [|apply espec_ret; exact I].
    eapply espec_bind; [apply espec_p_one_op|]. intros o _.
    eapply espec_bind; [exact IH|]. intros more _. apply espec_ret. exact I.
  Qed.

  Lemma espec_p_field_operation f : espec (p_field_operation parse_expr f) (fun _ => True).
  Proof.
    unfold p_field_operation. ebind sp Hsp. ebind ts Hts. cbv zeta. ebind_. ebind name Hname.
    eapply espec_bind; [apply espec_p_ops_loop|]. intros more _.
    match goal with |- espec (match ?l with _ => _ end) _ => destruct l as [|o [|o2 l2]] end;
      first [apply espec_panic | apply espec_ret; exact I].
  Qed.

  Lemma espec_p_cmp_op : espec (p_cmp_op join_ok) (fun _ => True).
  Proof.
    unfold p_cmp_op. ebind ts Hts. cbv beta zeta.
    assert (G : forall s (o : cmp_op), espec (sps <- p_punct s;; ret (o, spans_span join_ok sps)) (fun _ => True)).
    { intros s o. ebind sps Hsps. apply espec_ret. exact I. }
    repeat (match goal with |- espec (if ?b then _ else _) _ => destruct b end; [apply G|]).
    apply espec_fail.
  Qed.

  Lemma espec_leaves :
    espec (p_comparison join_ok parse_expr) (fun _ => True) /\ espec (p_like parse_expr) (fun _ => True) /\
    espec (p_closure_pat parse_closure) (fun _ => True) /\ espec (p_range parse_expr) (fun _ => True) /\
    espec (p_simple parse_expr) (fun _ => True) /\ espec p_wild (fun _ => True).
  Proof.
    unfold p_comparison, p_like, p_closure_pat, p_range, p_simple, p_wild. repeat split.
    - eapply espec_bind; [apply espec_p_cmp_op|]. intros o _. ebind r Hr. ebind_. apply espec_ret. exact I.
    - ebind_. ebind_. ebind r Hr. ebind_. destruct (eo_str r); apply espec_ret; exact I.
    - ebind c Hc. destruct (Nat.eqb (co_inputs c) 1); [ebind_; apply espec_ret; exact I|apply espec_fail_at; exact Hc].
    - ebind r Hr. destruct (eo_range r); [ebind_; apply espec_ret; exact I|apply espec_fail_at; exact Hr].
    - ebind r Hr. ebind_. apply espec_ret. exact I.
    - ebind ts Hts. destruct (peek_ident "_" ts); [|apply espec_fail]. ebind_. ebind_. apply espec_ret. exact I.
  Qed.

  Notation p_pattern := (p_pattern regex join_ok parse_expr parse_path parse_closure).
  Notation p_struct := (p_struct regex join_ok parse_expr parse_path parse_closure).
  Notation p_fields := (p_fields regex join_ok parse_expr parse_path parse_closure).
  Notation p_enum := (p_enum regex join_ok parse_expr parse_path parse_closure).
  Notation p_tuple := (p_tuple regex join_ok parse_expr parse_path parse_closure).
  Notation p_elems := (p_elems regex join_ok parse_expr parse_path parse_closure).
  Notation p_indexed := (p_indexed regex join_ok parse_expr parse_path parse_closure).
  Notation p_slice := (p_slice regex join_ok parse_expr parse_path parse_closure).
  Notation p_list := (p_list regex join_ok parse_expr parse_path parse_closure).
  Notation p_set := (p_set regex join_ok parse_expr parse_path parse_closure).
  Notation p_set_elems := (p_set_elems regex join_ok parse_expr parse_path parse_closure).
  Notation p_map := (p_map regex join_ok parse_expr parse_path parse_closure).
  Notation p_map_entries := (p_map_entries regex join_ok parse_expr parse_path parse_closure).

  Definition T {X} : X -> Prop := fun _ => True.

  Definition all_espec (f : nat) : Prop :=
    espec (p_pattern f) T /\ espec (p_struct f) T /\ espec (p_fields f) T /\ espec (p_enum f) T /\ espec (p_tuple f) T /\
    (forall pos, espec (p_elems f pos) T) /\ (forall pos, espec (p_indexed f pos) T) /\ espec (p_slice f) T /\
    espec (p_list f) T /\ espec (p_set f) T /\ espec (p_set_elems f) T /\ espec (p_map f) T /\ espec (p_map_entries f) T.

  Ltac eret := apply espec_ret; exact I.
  Ltac ecall H := eapply espec_bind; [first [exact H | apply H] | intros ? _].
  Ltac egroup H := eapply espec_bind; [apply espec_in_group; first [exact H | apply H] | intros ? _].

  Lemma all_espec_holds : forall f, all_espec f.
  Proof.
    induction f as [|f IH].
    { unfold all_espec; repeat split; intros; apply espec_fuel. }
    destruct IH as (Hpat & Hstruct & Hfields & Henum & Htuple & Helems & Hindexed & Hslice & Hlist &
                    Hset & Hsetel & Hmap & Hmapen).
    destruct espec_leaves as (Lcmp & Llike & Lclos & Lrange & Lsimple & Lwild).
    unfold all_espec, T in *. repeat split; try intros pos.
    - (* p_pattern *)
      cbn [Parser.p_pattern]. ebind ts Hts.
      repeat match goal with |- espec (if ?b then _ else _) _ => destruct b end; try assumption; try apply espec_fail.
      ebind pk Hpk. destruct pk as [[pkp after]|].
      { destruct (peek_group DBrace after); assumption. }
      ebind rk Hrk. destruct rk; [assumption|].
      ebind now Hnow. destruct now as [|t r]; [assumption|]. destruct t as [| |k text sp|]; try assumption.
      destruct k; try assumption. ebind_. ebind_. eret.
    - (* p_struct *)
      cbn [Parser.p_struct]. ebind_. ebind ts Hts.
      eapply espec_bind with (P := fun hd => forall w, snd hd = Some w -> A w).
      { destruct ts as [|t r]; [ebind q Hq; apply espec_ret; cbn; discriminate|].
        destruct (okl_head_open _ _ Hts) as [Ho Hw].
        destruct t as [s sp| | |]; try (ebind q Hq; apply espec_ret; cbn; discriminate).
        destruct (String.eqb s "_"); [|ebind q Hq; apply espec_ret; cbn; discriminate].
        ebind_. apply espec_ret. cbn. intros w E. inversion E; subst. exact Hw. }
      intros hd Hhd. egroup Hfields.
      match goal with g : _ |- _ => destruct g as [[[? ?] ?] [fields rest]] end.
      destruct (fst hd), rest; try eret.
      destruct (snd hd) as [w|] eqn:Hs; [apply espec_fail_at; exact (Hhd w eq_refl)|apply espec_panic].
    - (* p_fields *)
      cbn [Parser.p_fields]. ebind e He. destruct e; [eret|]. ebind d Hd. destruct d; [ebind_; eret|].
      ecall espec_p_field_operation. ebind_. ecall Hpat. ebind e2 He2. destruct e2; [eret|].
      ebind_. ebind d2 Hd2. destruct d2; [ebind_; eret|]. ecall Hfields. eret.
    - (* p_enum *)
      cbn [Parser.p_enum]. ebind_. ebind paren Hp.
      eapply espec_bind with (P := fun _ => True).
      { destruct paren; [egroup Helems; eret|eret]. }
      intros elems _. ebind_. eret.
    - (* p_tuple *)
      cbn [Parser.p_tuple]. egroup Helems. match goal with g : _ |- _ => destruct g as [[[? ?] ?] ?] end. ebind_. eret.
    - (* p_elems *)
      cbn [Parser.p_elems]. ebind e He. destruct e; [eret|]. ebind fk Hfk.
      eapply espec_bind with (P := fun _ => True).
      { destruct fk as [[fkp after]|]; [|apply Hindexed]. destruct (negb (peek_punct ":" after)); [|apply Hindexed].
        ecall Hpat. eret. }
      intros el _. ebind e2 He2.
      eapply espec_bind with (P := fun _ => True). { destruct e2; [eret|ebind_; eret]. }
      intros _ _. ecall Helems. eret.
    - (* p_indexed *)
      cbn [Parser.p_indexed]. ecall espec_p_field_operation.
      match goal with |- espec (match ?x with _ => _ end) _ => destruct x as [[|]|] end;
        [ebind_; ecall Hpat; eret|apply espec_fail|apply espec_panic].
    - (* p_slice *)
      cbn [Parser.p_slice]. egroup Hlist. match goal with g : _ |- _ => destruct g as [[[? ?] ?] ?] end. ebind_. eret.
    - (* p_list *)
      cbn [Parser.p_list]. ebind e He. destruct e; [eret|]. ecall Hpat. ebind e2 He2.
      eapply espec_bind with (P := fun _ => True). { destruct e2; [eret|ebind_; eret]. }
      intros _ _. ecall Hlist. eret.
    - (* p_set *)
      cbn [Parser.p_set]. ebind_. egroup Hsetel. match goal with g : _ |- _ => destruct g as [[[? ?] ?] [? ?]] end. ebind_. eret.
    - (* p_set_elems *)
      cbn [Parser.p_set_elems]. ebind e He. destruct e; [eret|]. ebind d Hd. destruct d.
      { ebind_. ebind c Hc. eapply espec_bind with (P := fun _ => True). { destruct c; [ebind_; eret|eret]. } intros _ _. eret. }
      ecall Hpat. ebind e2 He2. destruct e2; [eret|]. ebind_. ebind d2 Hd2. destruct d2; [ebind_; eret|]. ecall Hsetel. eret.
    - (* p_map *)
      cbn [Parser.p_map]. ebind_. egroup Hmapen. match goal with g : _ |- _ => destruct g as [[[? ?] ?] [? ?]] end. ebind_. eret.
    - (* p_map_entries *)
      cbn [Parser.p_map_entries]. ebind e He. destruct e; [eret|]. ebind d Hd. destruct d; [ebind_; eret|].
      ebind k Hk. ebind_. ecall Hpat. ebind e2 He2. destruct e2; [eret|].
      ebind_. ebind d2 Hd2. destruct d2; [ebind_; eret|]. ecall Hmapen. eret.
  Qed.

  Notation parse_top_from := (parse_top_from regex join_ok parse_expr parse_path parse_closure).

  (* every compile error of the parser is attached to an allowed span *)
  Theorem parse_error_located fuel start ts sp : okl ts -> parse_top_from fuel start ts = TErr sp -> A sp.
  Proof.
    intros Hts. unfold Parser.parse_top_from.
    match goal with |- context [?m SCall ?st] => assert (H : espec m (fun _ => True)) end.
    { ebind v Hv. ebind_. ecall (proj1 (all_espec_holds fuel)). eret. }
    match goal with |- context [?m SCall ?st] =>
      specialize (H SCall st A_call Hts (fun s E => match E in _ = y return match y with None => True | Some _ => A s end with eq_refl => I end));
      destruct (m SCall st) as [[v p] st'| | |] end; try discriminate.
    - destruct H as (_ & Hl & Hu). destruct (unx st') as [u|] eqn:Eu.
      + intros E; inversion E; subst. apply Hu. reflexivity.
      + destruct (toks st') as [|t r] eqn:Et; [discriminate|]. intros E; inversion E; subst. apply (okl_head_open _ r Hl).
    - intros E; inversion E; subst. exact H.
  Qed.
End ErrLoc.

(* ---- the concrete reading: "starts where a token of the invocation starts, or where the call site does" ---- *)

Definition starts_in (ts : list ttree) (sp : span) : Prop :=
  exists s, In s (SCall :: all_spans ts) /\ Nodes.span_start sp = Nodes.span_start s.

Section Concrete.
  Variable regex join_ok : bool.
  Variable parse_expr : list ttree -> ores expr_ok.
  Variable parse_path : list ttree -> ores path_ok.
  Variable parse_closure : list ttree -> ores closure_ok.
  (* what is assumed of syn's parsers: every span they report starts where a token of THEIR OWN input starts (or is the
     call site); an error "at the end of the input" is OErrEof, which the macro attaches to the enclosing group *)
  Hypothesis Lexpr_err : forall l sp, parse_expr l = OErr (OErrAt sp) -> starts_in l sp.
  Hypothesis Lexpr_ok : forall l r, parse_expr l = OOk r ->
    (forall u, eo_unx r = Some u -> starts_in l u) /\ starts_in l (u_span (eo_u r)).
  Hypothesis Lpath_err : forall l sp, parse_path l = OErr (OErrAt sp) -> starts_in l sp.
  Hypothesis Lpath_ok : forall l r, parse_path l = OOk r -> forall u, po_unx r = Some u -> starts_in l u.
  Hypothesis Lclosure_err : forall l sp, parse_closure l = OErr (OErrAt sp) -> starts_in l sp.
  Hypothesis Lclosure_ok : forall l c, parse_closure l = OOk c ->
    (forall u, co_unx c = Some u -> starts_in l u) /\ starts_in l (co_inputs_span c).

  Lemma local_to_global ts l sp : okl (starts_in ts) l -> starts_in l sp -> starts_in ts sp.
  Proof.
    intros Hl (s & [<-|Hin] & E).
    - exists SCall. split; [left; reflexivity|exact E].
    - destruct (Hl s Hin) as (s' & Hin' & E'). exists s'. split; [exact Hin'|]. rewrite E. exact E'.
  Qed.

  Lemma starts_in_self ts : okl (starts_in ts) ts.
  Proof. intros s Hs. exists s. split; [right; exact Hs|reflexivity]. Qed.

  (* every compile error the parser returns is attached to a position where a token of the invocation starts, or to the call *)
  Theorem parse_error_points_into_invocation fuel start ts sp :
    parse_top_from regex join_ok parse_expr parse_path parse_closure fuel start ts = TErr sp -> starts_in ts sp.
  Proof.
    apply (parse_error_located (starts_in ts)).
    - exists SCall. split; [left; reflexivity|reflexivity].
    - intros l sp0 Hl E. exact (local_to_global ts l sp0 Hl (Lexpr_err _ _ E)).
    - intros l r Hl E. destruct (Lexpr_ok _ _ E) as [H1 H2]. split.
      + intros u Hu. exact (local_to_global ts l u Hl (H1 u Hu)).
      + exact (local_to_global ts l _ Hl H2).
    - intros l sp0 Hl E. exact (local_to_global ts l sp0 Hl (Lpath_err _ _ E)).
    - intros l r Hl E u Hu. exact (local_to_global ts l u Hl (Lpath_ok _ _ E u Hu)).
    - intros l sp0 Hl E. exact (local_to_global ts l sp0 Hl (Lclosure_err _ _ E)).
    - intros l c Hl E. destruct (Lclosure_ok _ _ E) as [H1 H2]. split.
      + intros u Hu. exact (local_to_global ts l u Hl (H1 u Hu)).
      + exact (local_to_global ts l _ Hl H2).
    - apply starts_in_self.
  Qed.

  Theorem front_end_error_points_into_invocation start ts sp :
    front_end_from regex join_ok parse_expr parse_path parse_closure start ts = FEErr sp -> starts_in ts sp.
  Proof.
    unfold front_end_from.
    destruct (parse_top_from regex join_ok parse_expr parse_path parse_closure (fuel_for ts) start ts) as [v p|sp'|s|] eqn:E;
      try discriminate.
    - destruct (stmt_panics _); discriminate.
    - intros H; inversion H; subst. exact (parse_error_points_into_invocation _ _ _ _ E).
  Qed.
End Concrete.
