(* Proofs about Model/Shared.v and the working-directory half of C17. *)
From ASModel Require Import Base Shared PathRes.
From ASProofs Require Import PathResP.

Section CacheP.
  Variable fs : string -> option string.

  (* everything cached is the file's content *)
  Definition cache_ok (c : cache) : Prop := forall p s, cache_get p c = Some s -> fs p = Some s.

  Definition call_ok (k : call) : Prop :=
    match c_pc k with
    | PInsert s => fs (c_path k) = Some s
    | PDone r => r = fs (c_path k)
    | _ => True
    end.

  Definition inv (st : cache * list call) : Prop := cache_ok (fst st) /\ Forall call_ok (snd st).

  Lemma step_call_inv c k : cache_ok c -> call_ok k ->
    cache_ok (fst (step_call fs c k)) /\ call_ok (snd (step_call fs c k)) /\ c_path (snd (step_call fs c k)) = c_path k.
  Proof.
    intros Hc Hk. unfold step_call. destruct (c_pc k) as [| |s|r] eqn:E.
    - destruct (cache_get (c_path k) c) as [s|] eqn:G; cbn; repeat split; auto.
      unfold call_ok; cbn. symmetry. apply Hc. exact G.
    - destruct (fs (c_path k)) as [s|] eqn:F; cbn; repeat split; auto; unfold call_ok; cbn; auto.
    - unfold call_ok in Hk. rewrite E in Hk. cbn. split; [|split; [|reflexivity]].
      + destruct (cache_get (c_path k) c) eqn:G; [exact Hc|].
        intros p s' H. cbn in H. destruct (String.eqb p (c_path k)) eqn:Ep; [|apply Hc; exact H].
        apply String.eqb_eq in Ep. subst p. inversion H; subst. exact Hk.
      + unfold call_ok; cbn. symmetry; exact Hk.
    - cbn. repeat split; auto.
  Qed.

  Lemma Forall_update {A} (P : A -> Prop) : forall l i x, Forall P l -> P x -> Forall P (update l i x).
  Proof.
    induction l as [|y r IH]; intros i x Hl Hx; cbn; [constructor|].
    inversion Hl; subst. destruct i; constructor; auto.
  Qed.

  Lemma step_inv st i : inv st -> inv (step fs st i).
  Proof.
    intros (Hc & Hk). unfold step. destruct (nth_error (snd st) i) as [k|] eqn:E; [|split; assumption].
    pose proof (step_call_inv (fst st) k Hc) as H.
    assert (Hkk : call_ok k) by (eapply Forall_forall; [exact Hk|eapply nth_error_In; exact E]).
    destruct (H Hkk) as (H1 & H2 & _). destruct (step_call fs (fst st) k) as [c' k']. cbn in *.
    split; [exact H1|]. apply Forall_update; assumption.
  Qed.

  (* C17: under ANY interleaving of any number of concurrent calls (same file, different files,
     cold or warm cache), with the files unchanged, every cached value and every value returned
     is the content of the caller's own path *)
  Theorem cache_inv : forall schedule st, inv st -> inv (run fs st schedule).
  Proof.
    induction schedule as [|i r IH]; intros st H; cbn; [exact H|]. apply IH. apply step_inv. exact H.
  Qed.

  Corollary no_crosstalk : forall schedule c0 calls k i,
    cache_ok c0 -> Forall (fun k => c_pc k = PStart) calls ->
    nth_error (snd (run fs (c0, calls) schedule)) i = Some k ->
    forall r, c_pc k = PDone r -> r = fs (c_path k).
  Proof.
    intros schedule c0 calls k i Hc Hs Hn r Hr.
    assert (Hinv : inv (run fs (c0, calls) schedule)).
    { apply cache_inv. split; [exact Hc|]. eapply Forall_impl; [|exact Hs]. intros a Ha. unfold call_ok. rewrite Ha. exact I. }
    destruct Hinv as (_ & Hk). eapply Forall_forall in Hk; [|eapply nth_error_In; exact Hn].
    unfold call_ok in Hk. rewrite Hr in Hk. exact Hk.
  Qed.

  (* every call finishes within three of its own steps, whatever the others do: no step waits *)
  Lemma step_call_progress c k :
    match c_pc k with
    | PDone _ => True
    | _ => c_pc (snd (step_call fs c k)) <> c_pc k
    end.
  Proof.
    unfold step_call. destruct (c_pc k) eqn:E; auto.
    - destruct (cache_get _ _); cbn; discriminate.
    - destruct (fs _); cbn; discriminate.
    - cbn. discriminate.
  Qed.

  Definition rank (p : pc) : nat := match p with PStart => 3 | PRead => 2 | PInsert _ => 1 | PDone _ => 0 end.

  Theorem call_terminates : forall c k, rank (c_pc (snd (step_call fs c k))) < rank (c_pc k) \/ rank (c_pc k) = 0.
  Proof.
    intros c k. unfold step_call. destruct (c_pc k) eqn:E; cbn.
    - left. destruct (cache_get _ _); cbn; lia.
    - left. destruct (fs _); cbn; lia.
    - left; lia.
    - right; reflexivity.
  Qed.

  (* ---- progress: a call needs at most three of ITS OWN steps, whatever the others do ---- *)

  Lemma nth_error_update_eq {A} : forall (l : list A) i x k, nth_error l i = Some k -> nth_error (update l i x) i = Some x.
  Proof.
    induction l as [|y r IH]; intros i x k H; destruct i; cbn in *; try discriminate; [reflexivity|].
    eapply IH; exact H.
  Qed.

  Lemma nth_error_update_neq {A} : forall (l : list A) i j x, i <> j -> nth_error (update l i x) j = nth_error l j.
  Proof.
    induction l as [|y r IH]; intros i j x H; destruct i, j; cbn; try reflexivity; try congruence.
    apply IH. congruence.
  Qed.

  Lemma step_self st i k : nth_error (snd st) i = Some k ->
    nth_error (snd (step fs st i)) i = Some (snd (step_call fs (fst st) k)).
  Proof.
    intros H. unfold step. rewrite H. destruct (step_call fs (fst st) k) as [c' k'] eqn:E. cbn.
    eapply nth_error_update_eq; exact H.
  Qed.

  Lemma step_other st i j : i <> j -> nth_error (snd (step fs st i)) j = nth_error (snd st) j.
  Proof.
    intros H. unfold step. destruct (nth_error (snd st) i) as [k|]; [|reflexivity].
    destruct (step_call fs (fst st) k) as [c' k']. cbn. apply nth_error_update_neq. exact H.
  Qed.

  Lemma step_call_rank c k :
    rank (c_pc (snd (step_call fs c k))) <= rank (c_pc k) - 1 /\ c_path (snd (step_call fs c k)) = c_path k.
  Proof.
    unfold step_call. destruct (c_pc k) eqn:E; cbn.
    - destruct (cache_get _ _); cbn; split; auto; lia.
    - destruct (fs _); cbn; split; auto; lia.
    - split; auto.
    - rewrite E. cbn. split; auto.
  Qed.

  Theorem run_progress : forall schedule st i k,
    nth_error (snd st) i = Some k ->
    exists k', nth_error (snd (run fs st schedule)) i = Some k' /\
               rank (c_pc k') <= rank (c_pc k) - count_occ Nat.eq_dec schedule i /\
               c_path k' = c_path k.
  Proof.
    induction schedule as [|j r IH]; intros st i k H.
    - exists k. cbn. repeat split; auto. lia.
    - cbn [run fold_left]. destruct (Nat.eq_dec j i) as [->|Hne].
      + pose proof (step_self st i k H) as Hs.
        destruct (IH (step fs st i) i _ Hs) as (k' & H1 & H2 & H3).
        destruct (step_call_rank (fst st) k) as (R1 & R2).
        exists k'. split; [exact H1|]. split; [|congruence].
        cbn [count_occ]. destruct (Nat.eq_dec i i); [|congruence]. lia.
      + assert (Hs : nth_error (snd (step fs st j)) i = Some k) by (rewrite step_other; auto).
        destruct (IH (step fs st j) i k Hs) as (k' & H1 & H2 & H3).
        exists k'. split; [exact H1|]. split; [|exact H3].
        cbn [count_occ]. destruct (Nat.eq_dec j i); [congruence|]. exact H2.
  Qed.

  Lemma rank_le_3 p : rank p <= 3.
  Proof. destruct p; cbn; lia. Qed.

  Lemma rank_0_done p : rank p = 0 -> exists r, p = PDone r.
  Proof. destruct p; cbn; intros H; try discriminate. eexists; reflexivity. Qed.

  (* no deadlock, no waiting: as soon as the scheduler has let a thread take three steps, its call has
     returned — with the content of its own file — whatever the other threads did in between *)
  Theorem call_completes : forall schedule c0 calls i k,
    cache_ok c0 -> Forall (fun k => c_pc k = PStart) calls ->
    nth_error calls i = Some k ->
    3 <= count_occ Nat.eq_dec schedule i ->
    exists k', nth_error (snd (run fs (c0, calls) schedule)) i = Some k' /\
               c_path k' = c_path k /\ c_pc k' = PDone (fs (c_path k)).
  Proof.
    intros schedule c0 calls i k Hc Hs Hn Hcount.
    destruct (run_progress schedule (c0, calls) i k Hn) as (k' & H1 & H2 & H3).
    pose proof (rank_le_3 (c_pc k)) as R.
    assert (R0 : rank (c_pc k') = 0) by lia.
    destruct (rank_0_done _ R0) as (r & Er).
    exists k'. split; [exact H1|]. split; [exact H3|].
    rewrite Er. f_equal. rewrite <- H3. eapply no_crosstalk; eauto.
  Qed.

  (* the same failure alone, in a fresh process (empty cache): three steps, same answer *)
  Lemma alone_result path :
    exists k', nth_error (snd (run fs ([], [{| c_path := path; c_pc := PStart |}]) [0; 0; 0])) 0 = Some k' /\
               c_pc k' = PDone (fs path).
  Proof.
    destruct (call_completes [0; 0; 0] [] [{| c_path := path; c_pc := PStart |}] 0 {| c_path := path; c_pc := PStart |})
      as (k' & H1 & _ & H3); auto.
    - intros p s H. discriminate.
    - exists k'. split; assumption.
  Qed.

  (* C17, history and concurrency independence of what a report is rendered from: under any
     interleaving, from any (consistent) warm or cold cache, a completed call returned exactly what
     the same call returns alone in a fresh process *)
  Theorem same_as_alone : forall schedule c0 calls i k r,
    cache_ok c0 -> Forall (fun k => c_pc k = PStart) calls ->
    nth_error (snd (run fs (c0, calls) schedule)) i = Some k -> c_pc k = PDone r ->
    exists k', nth_error (snd (run fs ([], [{| c_path := c_path k; c_pc := PStart |}]) [0; 0; 0])) 0 = Some k' /\
               c_pc k' = PDone r.
  Proof.
    intros schedule c0 calls i k r Hc Hs Hn Hr.
    rewrite (no_crosstalk schedule c0 calls k i Hc Hs Hn r Hr). apply alone_result.
  Qed.
End CacheP.

(* ---- the guard ------------------------------------------------------------------ *)

Lemma live_fold : forall h n, fold_left guard_step h n = live h n.
Proof. induction h as [|o r IH]; intros n; cbn; [reflexivity|]. destruct o; apply IH. Qed.

(* C17: colour is suppressed exactly while at least one guard is alive, for every history of
   guard creations and drops on the thread, nested or not, dropped in any order *)
Theorem guard_flag_iff_live : forall h, plain_flag (fold_left guard_step h 0) = negb (Nat.eqb (live h 0) 0).
Proof. intros h. rewrite live_fold. reflexivity. Qed.

(* the defect that was repaired: new; new; drop left the flag false with a guard alive *)
Lemma guard_old_refuted :
  exists h, live h 0 = 1 /\ fold_left guard_step_old h false = false.
Proof. exists [GNew; GNew; GDrop]. split; reflexivity. Qed.

(* ---- renderer choice --------------------------------------------------------------- *)

Theorem styled_iff g n t : styled g n t = true <-> g = false /\ n = false /\ t = true.
Proof. unfold styled. destruct g, n, t; cbn; split; intros; try discriminate; try tauto; destruct H as (? & ? & ?); discriminate. Qed.

(* ---- working directory: the resolved path is absolute whenever the manifest dir is ---- *)

Lemma is_absolute_append a b : is_absolute a = true -> is_absolute (a ++ b) = true.
Proof. destruct a; cbn; [discriminate|auto]. Qed.

Lemma last_char_some : forall s c, exists x, last_char (String c s) = Some x.
Proof.
  induction s as [|d r IH]; intros c; [eexists; reflexivity|].
  destruct (IH d) as (x & E). exists x. cbn [last_char]. cbn [last_char] in E. exact E.
Qed.

Lemma push_absolute buf p : is_absolute buf = true -> is_absolute (push buf p) = true.
Proof.
  intros H. unfold push. destruct (is_absolute p) eqn:E; [exact E|].
  destruct (last_char buf) as [ch|] eqn:L.
  - destruct (Ascii.eqb ch slash); apply is_absolute_append; exact H.
  - destruct buf as [|c r]; [discriminate|]. destruct (last_char_some r c) as (x & Ex). congruence.
Qed.

Lemma fold_push_absolute : forall cs buf, is_absolute buf = true ->
  is_absolute (fold_left (fun b c => push b (comp_str c)) cs buf) = true.
Proof. induction cs as [|c r IH]; intros buf H; cbn; [exact H|]. apply IH. apply push_absolute. exact H. Qed.

Lemma render_root_absolute cs : is_absolute (render (CRoot :: cs)) = true.
Proof. unfold render. cbn [fold_left]. apply fold_push_absolute. reflexivity. Qed.

Lemma components_absolute s : is_absolute s = true -> exists cs, components s = CRoot :: cs.
Proof. intros H. unfold components. rewrite H. eexists; reflexivity. Qed.

Lemma components_relative s : is_absolute s = false -> ~ exists cs, components s = CRoot :: cs.
Proof.
  intros H (cs & E). unfold components in E. rewrite H in E.
  assert (Hn : forall segs c, In c (normal_comps segs) -> c <> CRoot).
  { intros segs c Hin. unfold normal_comps in Hin. apply in_flat_map in Hin as (seg & _ & Hc).
    destruct (String.eqb seg ""); [destruct Hc|]. destruct (String.eqb seg "."); [destruct Hc|].
    destruct (String.eqb seg ".."); destruct Hc as [<-|[]]; discriminate. }
  destruct (split_on slash s) as [|seg rest]; [discriminate|].
  destruct (String.eqb seg "."); [discriminate|].
  assert (In CRoot (normal_comps (seg :: rest))) by (rewrite E; left; reflexivity).
  exact (Hn _ _ H0 eq_refl).
Qed.

Lemma list_eqb_comp_eq : forall a b, list_eqb comp_eqb a b = true -> a = b.
Proof.
  induction a as [|x a IH]; destruct b as [|y b]; cbn; intros H; try discriminate; [reflexivity|].
  apply andb_prop in H as [H1 H2]. f_equal; [|apply IH; exact H2].
  destruct x, y; cbn in H1; try discriminate; try reflexivity. apply String.eqb_eq in H1. subst. reflexivity.
Qed.

(* an overlap can never swallow the root of the manifest directory when file!() is relative *)
Lemma overlap_keeps_root m f o :
  (~ exists cs, f = CRoot :: cs) -> In o (overlaps (CRoot :: m) f ++ [0]) -> o <= List.length m.
Proof.
  intros Hrel Hin. apply in_app_or in Hin as [Hin|[<-|[]]]; [|lia].
  unfold overlaps in Hin. apply filter_In in Hin as (Hseq & Hov). apply in_seq in Hseq.
  destruct (Nat.eq_dec o (S (List.length m))) as [->|Hne]; [|cbn [List.length] in Hseq; pose proof (Nat.le_min_l (S (List.length m)) (List.length f)); lia].
  exfalso. unfold overlap_at in Hov. cbn [List.length] in Hov. rewrite Nat.sub_diag in Hov. cbn [skipn] in Hov.
  apply list_eqb_comp_eq in Hov. destruct f as [|c f']; [discriminate|]. cbn in Hov. inversion Hov; subst.
  apply Hrel. eexists; reflexivity.
Qed.

Lemma find_in {A} (P : A -> bool) l x : find P l = Some x -> In x l.
Proof. intros H. apply find_some in H. tauto. Qed.

Lemma last_in {A} (l : list A) d : l <> [] -> In (last l d) l.
Proof.
  induction l as [|x r IH]; intros H; [contradiction|]. destruct r as [|y r']; [left; reflexivity|].
  right. apply IH. discriminate.
Qed.

(* C17: the path the source is read from does not depend on the working directory — it is
   absolute whenever CARGO_MANIFEST_DIR is (always, under cargo), whatever file!() is and
   whatever exists on disk *)
Theorem resolved_path_absolute : forall is_file manifest_dir file,
  is_absolute manifest_dir = true ->
  is_absolute (absolute_source_path is_file manifest_dir file) = true.
Proof.
  intros is_file manifest_dir file Habs.
  destruct (is_absolute file) eqn:Ef; [rewrite absolute_file_unchanged; assumption|].
  destruct (components_absolute manifest_dir Habs) as (m & Em).
  pose proof (components_relative file Ef) as Hrel.
  assert (Hcand : forall o, In o (overlaps (CRoot :: m) (components file) ++ [0]) ->
                            is_absolute (resolve_with (CRoot :: m) file o) = true).
  { intros o Ho. pose proof (overlap_keeps_root m (components file) o Hrel Ho) as Hle.
    unfold resolve_with. cbn [List.length]. replace (S (List.length m) - o) with (S (List.length m - o)) by lia.
    cbn [firstn]. apply push_absolute. apply render_root_absolute. }
  unfold absolute_source_path. rewrite Em.
  destruct (find _ _) as [p|] eqn:F.
  - apply find_in in F. apply in_map_iff in F as (o & <- & Ho). apply Hcand.
    apply in_app_or in Ho as [Ho|Ho]; apply in_or_app; [left; apply in_rev; exact Ho|right; exact Ho].
  - apply Hcand. destruct (overlaps (CRoot :: m) (components file)) as [|x l] eqn:El.
    + cbn. left; reflexivity.
    + apply in_or_app. left. apply last_in. discriminate.
Qed.
