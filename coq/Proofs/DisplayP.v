(* Proofs about Model/Display.v (C06, C03's "no entry is dropped", C04's "its own range"). *)
From ASModel Require Import Base SrcLoc Report Display.
From ASProofs Require Import SrcLocP ReportP.
Local Open Scope N_scope.

(* with a readable source the renderer is handed the WHOLE source text, the displayed path, and exactly one
   annotation per entry, in the order of the entries *)
Theorem snippet_one_annotation_per_entry : forall st rel src e es,
  display st rel (Some src) (e :: es) = RSnippet st rel src (map (annotation_of src) (e :: es)) /\
  List.length (map (annotation_of src) (e :: es)) = List.length (e :: es) /\
  map an_label (map (annotation_of src) (e :: es)) = map (fun x => entry_label (re_entry x)) (e :: es).
Proof.
  intros st rel src e es. split; [reflexivity|]. split; [apply map_length|].
  rewrite map_map. apply map_ext. intros a. unfold annotation_of.
  destruct (span_of src _ _ _ _); reflexivity.
Qed.

(* the annotation of the i-th entry is a function of that entry and the source alone: neither the other entries,
   nor their order, nor what was formatted before can move it *)
Theorem annotation_depends_on_its_entry_only : forall src es i,
  nth_error (map (annotation_of src) es) i = option_map (annotation_of src) (nth_error es i).
Proof. intros src es i. apply nth_error_map. Qed.

(* every annotation satisfies the renderer's precondition: non-empty, both ends on character boundaries (or beyond the text) *)
Theorem annotations_safe : forall src es,
  Forall (fun a => an_start a < an_end a /\ is_boundary src (an_start a) = true /\ is_boundary src (an_end a) = true /\ an_start a <= blen src)
         (map (annotation_of src) es).
Proof.
  intros src es. apply Forall_forall. intros a Hin. apply in_map_iff in Hin as (e & <- & _).
  unfold annotation_of.
  pose proof (spans_safe src (e_line_start (re_entry e)) (re_col_start e) (re_line_end e) (re_col_end e)) as H.
  destruct (span_of src _ _ _ _) as [s t]. cbn. exact H.
Qed.

(* without a readable source: the fallback listing of the same entries, in order *)
Theorem display_fallback : forall st rel e es,
  display st rel None (e :: es) = RFallback (fallback_display rel (map re_entry (e :: es))).
Proof. reflexivity. Qed.

(* nothing is written for an empty report, and only then *)
Theorem display_nothing_iff : forall st rel src es, display st rel src es = RNothing <-> es = [].
Proof.
  intros st rel src es. split.
  - destruct es; [reflexivity|]. destruct src; discriminate.
  - intros ->. reflexivity.
Qed.
