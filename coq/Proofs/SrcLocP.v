(* Proofs about Model/SrcLoc.v (properties C04 and C06). *)
From ASModel Require Import Base SrcLoc.
Local Open Scope N_scope.

Lemma utf8_len_pos c : 1 <= utf8_len c.
Proof. unfold utf8_len. repeat destruct (_ <? _); lia. Qed.

Lemma utf8_len_nl : utf8_len NL = 1.
Proof. reflexivity. Qed.

Lemma blen_app p s : blen (p ++ s) = blen p + blen s.
Proof. induction p as [|c r IH]; cbn [app blen]; [reflexivity|rewrite IH; lia]. Qed.

Lemma split_nl_cons t : exists l ls, split_nl t = l :: ls.
Proof.
  induction t as [|c r (l & ls & IH)]; cbn [split_nl]; [eauto|].
  destruct (c =? NL); [eauto|]. rewrite IH. eauto.
Qed.

Lemma sum_first_0 ls : sum_first 0 ls = 0.
Proof. destruct ls; reflexivity. Qed.

Lemma sum_first_pos k l r : k <> 0 -> sum_first k (l :: r) = blen l + 1 + sum_first (N.pred k) r.
Proof. intros H. cbn [sum_first]. destruct (N.eqb_spec k 0); [contradiction|reflexivity]. Qed.

Lemma firstnN_0 {A} (l : list A) : firstnN 0 l = [].
Proof. destruct l; reflexivity. Qed.

Lemma firstnN_pos {A} n (x : A) l : n <> 0 -> firstnN n (x :: l) = x :: firstnN (N.pred n) l.
Proof. intros H. cbn [firstnN]. destruct (N.eqb_spec n 0); [contradiction|reflexivity]. Qed.

Lemma nthN_0 {A} (x : A) l d : nthN 0 (x :: l) d = x.
Proof. reflexivity. Qed.

Lemma nthN_pos {A} n (x : A) l d : n <> 0 -> nthN n (x :: l) d = nthN (N.pred n) l d.
Proof. intros H. cbn [nthN]. destruct (N.eqb_spec n 0); [contradiction|reflexivity]. Qed.

(* --- the compiler's (line, column), characterised on the prefix ---------- *)

Fixpoint countNL (p : text) : N :=
  match p with [] => 0 | c :: r => if c =? NL then 1 + countNL r else countNL r end.

(* number of characters after the last '\n' of p *)
Fixpoint lastlen (p : text) : N :=
  match p with
  | [] => 0
  | c :: r => if c =? NL then lastlen r
              else if countNL r =? 0 then 1 + lastlen r else lastlen r
  end.

Lemma linecol_from_spec : forall t i line col,
  linecol_from t i line col =
    (line + countNL (firstn i t),
     if countNL (firstn i t) =? 0 then col + lastlen (firstn i t) else lastlen (firstn i t)).
Proof.
  induction t as [|c r IH]; intros i line col.
  - destruct i; cbn; f_equal; lia.
  - destruct i as [|j]; [cbn; f_equal; lia|].
    cbn [linecol_from firstn countNL lastlen].
    destruct (c =? NL) eqn:E.
    + rewrite IH. destruct (N.eqb_spec (1 + countNL (firstn j r)) 0) as [H|_]; [lia|].
      f_equal; [lia|]. destruct (countNL (firstn j r) =? 0); lia.
    + rewrite IH. f_equal. destruct (countNL (firstn j r) =? 0); lia.
Qed.

(* --- the key arithmetic fact about split_nl ------------------------------- *)

Lemma offset_of_prefix : forall p s,
  sum_first (countNL p) (split_nl (p ++ s))
  + blen (firstnN (lastlen p) (nthN (countNL p) (split_nl (p ++ s)) [])) = blen p.
Proof.
  induction p as [|c r IH]; intros s.
  - cbn [countNL lastlen app blen]. rewrite sum_first_0, firstnN_0. reflexivity.
  - cbn [countNL lastlen app blen split_nl]. specialize (IH s).
    destruct (c =? NL) eqn:E.
    + apply N.eqb_eq in E. subst c.
      rewrite sum_first_pos by lia. rewrite nthN_pos by lia.
      replace (N.pred (1 + countNL r)) with (countNL r) by lia.
      rewrite utf8_len_nl. cbn [blen]. lia.
    + destruct (split_nl_cons (r ++ s)) as (l & ls & Hs). rewrite Hs in *.
      destruct (N.eqb_spec (countNL r) 0) as [H0|Hn0].
      * rewrite H0 in *. rewrite sum_first_0 in *. rewrite nthN_0 in *.
        rewrite firstnN_pos by lia. replace (N.pred (1 + lastlen r)) with (lastlen r) by lia.
        cbn [blen]. lia.
      * rewrite sum_first_pos in * by exact Hn0. rewrite nthN_pos in * by exact Hn0.
        cbn [blen]. lia.
Qed.

Lemma blen_firstn_le : forall i t, blen (firstn i t) <= blen t.
Proof.
  intros i t. rewrite <- (firstn_skipn i t) at 2. rewrite blen_app. lia.
Qed.

(* C04, run-time half: the byte offset computed from the compiler's (line,
   character column) of the character with index i is exactly the UTF-8 length of
   the i characters before it — for every text and every position. *)
Lemma roundtrip_core : forall t i,
  let '(l, c) := linecol t i in byte_offset_core t l c = prefix_len t i.
Proof.
  intros t i. unfold linecol. rewrite linecol_from_spec.
  set (p := firstn i t).
  assert (Hc : (if countNL p =? 0 then 0 + lastlen p else lastlen p) = lastlen p)
    by (destruct (countNL p =? 0); lia).
  rewrite Hc. unfold byte_offset_core.
  destruct (N.eqb_spec (1 + countNL p) 0) as [H|_]; [lia|].
  replace (1 + countNL p - 1) with (countNL p) by lia.
  rewrite <- (firstn_skipn i t) at 1 2. fold p.
  rewrite offset_of_prefix. unfold prefix_len. fold p.
  pose proof (blen_firstn_le i t). fold p in H. lia.
Qed.

Lemma prefix_len_lt : forall t i j, (i < j)%nat -> (j <= List.length t)%nat -> prefix_len t i < prefix_len t j.
Proof.
  unfold prefix_len. induction t as [|c r IH]; intros i j Hij Hj; cbn in Hj; [lia|].
  destruct j as [|j]; [lia|]. destruct i as [|i]; cbn [firstn blen].
  - pose proof (utf8_len_pos c). lia.
  - assert (blen (firstn i r) < blen (firstn j r)) by (apply IH; lia). lia.
Qed.

(* --- the byte-order mark --------------------------------------------------- *)

Lemma starts_bom_first_line t : starts_bom (nthN 0 (split_nl t) []) = starts_bom t.
Proof.
  destruct t as [|c r]; [reflexivity|]. cbn [split_nl].
  destruct (c =? NL) eqn:E.
  - apply N.eqb_eq in E. subst c. reflexivity.
  - destruct (split_nl_cons r) as (l & ls & Hs). rewrite Hs. reflexivity.
Qed.

(* on a text that does not begin with a byte-order mark the step does nothing *)
Lemma offset_without_bom t line col : starts_bom t = false -> byte_offset_of t line col = byte_offset_core t line col.
Proof.
  intros H. unfold byte_offset_of, byte_offset_core.
  destruct (line =? 0); [reflexivity|].
  destruct (N.eqb_spec line 1) as [->|_]; [|cbn [andb]; f_equal; lia].
  replace (1 - 1) with 0 by lia. rewrite starts_bom_first_line, H. cbn [andb]. f_equal. lia.
Qed.

(* on a text that begins with one, every position of a real line is moved by its three bytes *)
Lemma offset_with_bom r line col : line <> 0 ->
  byte_offset_of (BOM :: r) line col = utf8_len BOM + byte_offset_core r line col.
Proof.
  intros Hl. unfold byte_offset_of, byte_offset_core.
  destruct (N.eqb_spec line 0) as [|_]; [contradiction|].
  cbn [split_nl blen]. replace (BOM =? NL) with false by reflexivity.
  destruct (split_nl_cons r) as (l & ls & Hs). rewrite Hs.
  destruct (N.eqb_spec line 1) as [->|H1].
  - replace (1 - 1) with 0 by lia. rewrite !sum_first_0, !nthN_0.
    cbn [starts_bom andb tl]. replace (BOM =? BOM) with true by reflexivity. cbn [andb tl].
    lia.
  - cbn [andb]. rewrite !sum_first_pos by lia. rewrite !nthN_pos by lia. cbn [blen]. lia.
Qed.

Lemma linecol_line_pos t i : fst (linecol t i) <> 0.
Proof. unfold linecol. rewrite linecol_from_spec. cbn [fst]. lia. Qed.

(* C04, run-time half: the byte offset computed from the compiler's (line, character
   column) of the character with index i — positions the compiler assigns after it
   has dropped a leading byte-order mark — is exactly the offset of that character
   in the file as it is read back: the mark's bytes, if there is one, plus the UTF-8
   length of the i characters before it.  For every text and every position. *)
Theorem roundtrip : forall t i,
  let '(l, c) := linecol (strip_bom t) i in byte_offset_of t l c = bom_len t + prefix_len (strip_bom t) i.
Proof.
  intros t i. unfold strip_bom, bom_len.
  destruct (starts_bom t) eqn:Hb.
  - destruct t as [|c r]; [discriminate|]. cbn [starts_bom] in Hb. apply N.eqb_eq in Hb. subst c. cbn [tl].
    pose proof (roundtrip_core r i) as R. pose proof (linecol_line_pos r i) as P.
    destruct (linecol r i) as [l c]. cbn [fst] in P. rewrite offset_with_bom by exact P. rewrite R. reflexivity.
  - pose proof (roundtrip_core t i) as R. destruct (linecol t i) as [l c].
    rewrite offset_without_bom by exact Hb. rewrite R. lia.
Qed.

Lemma roundtrip_plain : forall t i, starts_bom t = false ->
  let '(l, c) := linecol t i in byte_offset_of t l c = prefix_len t i.
Proof.
  intros t i Hb. pose proof (roundtrip t i) as R. unfold strip_bom, bom_len in R. rewrite Hb in R.
  destruct (linecol t i) as [l c]. rewrite R. lia.
Qed.

(* C04: a token range [i, j) of the text is marked exactly. *)
Theorem marked_range_exact : forall t i j, (i < j)%nat -> (j <= List.length (strip_bom t))%nat ->
  let '(ls, cs) := linecol (strip_bom t) i in
  let '(le, ce) := linecol (strip_bom t) j in
  span_of t ls cs le ce = (bom_len t + prefix_len (strip_bom t) i, bom_len t + prefix_len (strip_bom t) j).
Proof.
  intros t i j Hij Hj.
  pose proof (roundtrip t i) as Ri. pose proof (roundtrip t j) as Rj.
  destruct (linecol (strip_bom t) i) as [ls cs]. destruct (linecol (strip_bom t) j) as [le ce].
  unfold span_of. rewrite Ri, Rj.
  pose proof (prefix_len_lt (strip_bom t) i j Hij Hj) as Hlt.
  destruct (N.ltb_spec (bom_len t + prefix_len (strip_bom t) i) (bom_len t + prefix_len (strip_bom t) j)); [reflexivity|lia].
Qed.

(* --- C06: the spans handed to the renderer are always safe ---------------- *)

Lemma is_boundary_0 t : is_boundary t 0 = true.
Proof. destruct t; reflexivity. Qed.

Lemma is_boundary_beyond : forall t b, blen t <= b -> is_boundary t b = true.
Proof.
  induction t as [|c r IH]; intros b H; [reflexivity|]. cbn [is_boundary blen] in *.
  pose proof (utf8_len_pos c).
  destruct (N.eqb_spec b 0); [reflexivity|].
  destruct (N.ltb_spec b (utf8_len c)); [lia|]. apply IH. lia.
Qed.

Lemma is_boundary_step c r x : is_boundary r x = true -> is_boundary (c :: r) (utf8_len c + x) = true.
Proof.
  intros H. cbn [is_boundary]. pose proof (utf8_len_pos c).
  destruct (N.eqb_spec (utf8_len c + x) 0); [reflexivity|].
  destruct (N.ltb_spec (utf8_len c + x) (utf8_len c)); [lia|].
  replace (utf8_len c + x - utf8_len c) with x by lia. exact H.
Qed.

Lemma raw_offset_boundary : forall t k c,
  is_boundary t (sum_first k (split_nl t) + blen (firstnN c (nthN k (split_nl t) []))) = true.
Proof.
  induction t as [|ch r IH]; intros k c; [reflexivity|].
  cbn [split_nl]. destruct (ch =? NL) eqn:E.
  - apply N.eqb_eq in E; subst ch.
    destruct (N.eqb_spec k 0) as [->|Hk].
    + rewrite sum_first_0, nthN_0. cbn. reflexivity.
    + rewrite sum_first_pos, nthN_pos by exact Hk.
      specialize (IH (N.pred k) c). cbn [blen].
      replace (0 + 1 + sum_first (N.pred k) (split_nl r) + blen (firstnN c (nthN (N.pred k) (split_nl r) [])))
        with (utf8_len NL + (sum_first (N.pred k) (split_nl r) + blen (firstnN c (nthN (N.pred k) (split_nl r) []))))
        by (rewrite utf8_len_nl; lia).
      apply is_boundary_step. exact IH.
  - destruct (split_nl_cons r) as (l & ls & Hs).
    destruct (N.eqb_spec k 0) as [->|Hk].
    + rewrite Hs. rewrite sum_first_0, nthN_0.
      destruct (N.eqb_spec c 0) as [->|Hc]; [rewrite firstnN_0; cbn; reflexivity|].
      rewrite firstnN_pos by exact Hc. cbn [blen].
      specialize (IH 0 (N.pred c)). rewrite Hs, sum_first_0, nthN_0 in IH.
      replace (0 + (utf8_len ch + blen (firstnN (N.pred c) l)))
        with (utf8_len ch + (0 + blen (firstnN (N.pred c) l))) by lia.
      apply is_boundary_step. exact IH.
    + specialize (IH k c). rewrite Hs in *.
      rewrite sum_first_pos, nthN_pos in * by exact Hk. cbn [blen].
      replace (utf8_len ch + blen l + 1 + sum_first (N.pred k) ls + blen (firstnN c (nthN (N.pred k) ls [])))
        with (utf8_len ch + (blen l + 1 + sum_first (N.pred k) ls + blen (firstnN c (nthN (N.pred k) ls [])))) by lia.
      apply is_boundary_step. exact IH.
Qed.

Lemma core_offset_boundary : forall t line col, is_boundary t (byte_offset_core t line col) = true.
Proof.
  intros t line col. unfold byte_offset_core.
  destruct (line =? 0); [apply is_boundary_0|].
  set (x := sum_first _ _ + _).
  destruct (N.le_gt_cases x (blen t)) as [H|H].
  - rewrite N.min_l by exact H. apply raw_offset_boundary.
  - rewrite N.min_r by lia. apply is_boundary_beyond. lia.
Qed.

Theorem byte_offset_boundary : forall t line col, is_boundary t (byte_offset_of t line col) = true.
Proof.
  intros t line col. destruct (starts_bom t) eqn:Hb.
  - destruct t as [|c r]; [discriminate|]. cbn [starts_bom] in Hb. apply N.eqb_eq in Hb. subst c.
    destruct (N.eqb_spec line 0) as [->|Hl]; [reflexivity|].
    rewrite offset_with_bom by exact Hl. apply is_boundary_step. apply core_offset_boundary.
  - rewrite offset_without_bom by exact Hb. apply core_offset_boundary.
Qed.

Theorem byte_offset_le : forall t line col, byte_offset_of t line col <= blen t.
Proof.
  intros t line col. unfold byte_offset_of. destruct (line =? 0); lia.
Qed.

Lemma next_boundary : forall t s, is_boundary t s = true ->
  is_boundary t (s + match char_len_at t s with Some n => n | None => 1 end) = true
  /\ 1 <= match char_len_at t s with Some n => n | None => 1 end.
Proof.
  induction t as [|c r IH]; intros s H; [cbn; split; [reflexivity|lia]|].
  cbn [is_boundary char_len_at] in *. pose proof (utf8_len_pos c).
  destruct (N.eqb_spec s 0) as [Hs0|Hs].
  - subst s. split; [|lia].
    destruct (N.eqb_spec (0 + utf8_len c) 0); [reflexivity|].
    destruct (N.ltb_spec (0 + utf8_len c) (utf8_len c)); [lia|].
    replace (0 + utf8_len c - utf8_len c) with 0 by lia. apply is_boundary_0.
  - destruct (N.ltb_spec s (utf8_len c)); [discriminate|].
    destruct (IH _ H) as (Hb & Hpos). split; [|exact Hpos].
    set (m := match char_len_at r (s - utf8_len c) with Some n => n | None => 1 end) in *.
    destruct (N.eqb_spec (s + m) 0); [reflexivity|].
    destruct (N.ltb_spec (s + m) (utf8_len c)); [lia|].
    replace (s + m - utf8_len c) with (s - utf8_len c + m) by lia. exact Hb.
Qed.

(* C06: for every text (empty, truncated, edited, any Unicode) and every recorded
   quadruple — including positions outside the text and line 0 — the span given to
   the renderer is non-empty and both ends are character boundaries of the text
   (or lie at or beyond its end). *)
Theorem spans_safe : forall t ls cs le ce,
  let '(s, e) := span_of t ls cs le ce in
  s < e /\ is_boundary t s = true /\ is_boundary t e = true /\ s <= blen t.
Proof.
  intros t ls cs le ce. unfold span_of.
  pose proof (byte_offset_boundary t ls cs) as Bs.
  pose proof (byte_offset_boundary t le ce) as Be.
  pose proof (byte_offset_le t ls cs) as Ls.
  destruct (N.ltb_spec (byte_offset_of t ls cs) (byte_offset_of t le ce)).
  - repeat split; assumption.
  - destruct (next_boundary t _ Bs) as (Hb & Hpos). repeat split; [lia|exact Bs|exact Hb|exact Ls].
Qed.

(* --- the defect that was repaired: machine-checked record ------------------ *)

(* one 'é' (2 bytes) before the marked character: the old code returned offset 1,
   the middle of the 'é'. *)
Lemma byte_offset_of_old_refuted :
  exists t i, let '(l, c) := linecol t i in byte_offset_of_old t l c <> prefix_len t i.
Proof. exists [233; 120], 1%nat. vm_compute. discriminate. Qed.

(* the second repair: a file that begins with a byte-order mark and has the marked character on its first
   line (`<BOM>x=` with the `=` marked): without the byte-order-mark step the offset is the one of the `x` *)
Lemma byte_offset_core_refuted :
  exists t i, let '(l, c) := linecol (strip_bom t) i in byte_offset_core t l c <> bom_len t + prefix_len (strip_bom t) i.
Proof. exists [65279; 120; 61], 1%nat. vm_compute. discriminate. Qed.

Lemma span_of_old_unsafe :
  exists t ls cs le ce, let '(s, e) := span_of_old t ls cs le ce in is_boundary t s = false.
Proof. exists [233; 120], 1, 1, 1, 2. vm_compute. reflexivity. Qed.
