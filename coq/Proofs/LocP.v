(* LocP.v — which tokens anchor a node (Nodes.location), property C04. *)
From ASModel Require Import Base Tokens Report Ast Nodes.

Lemma location_leaf_joined : forall id e t r,
  u_toks e = t :: r -> tok_span t <> SCall -> tok_span (last r t) <> SCall ->
  location true (PSimple id e) = mkloc (span_start (tok_span t)) (span_end (tok_span (last r t))).
Proof.
  intros id e t r H Ht Hl. cbn [location]. unfold expr_span, toks_span. rewrite H.
  destruct r as [|t2 r2]; [reflexivity|].
  destruct (tok_span t) eqn:E1; [contradiction|]. destruct (tok_span (last (t2 :: r2) t)) eqn:E2; [contradiction|]. reflexivity.
Qed.


Lemma location_leaf_unjoined : forall id e t r,
  u_toks e = t :: r -> location false (PSimple id e) = mkloc (span_start (tok_span t)) (span_end (tok_span t)).
Proof. intros id e t r H. cbn [location]. unfold expr_span, toks_span. rewrite H. destruct r; reflexivity. Qed.


Lemma location_composites : forall j id sp rest elems entries path r fields a b,
  p_first path = Some a -> p_last path = Some b ->
  location j (PSlice id sp elems) = mkloc (span_start sp) (span_end sp) /\
  location j (PTuple id sp (map (fun p => (None, p)) elems)) = mkloc (span_start sp) (span_end sp) /\
  location j (PSet id sp rest elems) = mkloc (span_start sp) (span_end sp) /\
  location j (PMap id sp rest entries) = mkloc (span_start sp) (span_end sp) /\
  location j (PStruct id (Some path) r fields) = mkloc (span_start a) (span_end b) /\
  location j (PEnum id path (map (fun p => (None, p)) elems)) = mkloc (span_start a) (span_end b).
Proof. intros. cbn [location]. rewrite H, H0. repeat split. Qed.

