(* UniformP.v — the pattern parser is the same function in every position (parser half of C11).

   Every position that holds a sub-pattern — the root, a struct field, a tuple or variant
   element, a slice or set element, a map value — reaches `Pattern::parse` (p_pattern) on the
   tokens that remain in the enclosing group.  What differs between positions is the state the
   call is made in: the fuel left, the value of the thread-local node counter (speculative parses
   advance it), and the scope an end-of-input error points to.  The main theorem is a relational
   ("two runs") induction over the thirteen mutually recursive functions: on the same remaining
   tokens and the same unexpected-token record, two calls with ANY fuels, counters and scopes
   take the same decisions — both accept or both reject — consume the same tokens, leave the same
   record and build the same tree up to node ids (PFuel on either side relates to everything;
   FuelP.v shows it does not happen with the fuel parse_top uses).

   Corollaries: a token sequence accepted as the root pattern is accepted, as the same tree up to
   ids, as the only element of a slice, set (unless it is the lone `..` rest marker) or tuple
   pattern, and conversely. *)
From Coq Require Import Lia.
From ASModel Require Import Base Tokens Report Ast Parser.
From ASProofs Require Import PatInd FuelP.
Local Open Scope list_scope.

(* ---- trees up to node ids --------------------------------------------------------------- *)

Fixpoint erase (p : pat) : pat :=
  match p with
  | PSimple _ e => PSimple 0 e
  | PString _ l s v => PString 0 l s v
  | PCmp _ op s e => PCmp 0 op s e
  | PRange _ e parts => PRange 0 e parts
  | PRegex _ x s => PRegex 0 x s
  | PLike _ e => PLike 0 e
  | PWild _ => PWild 0
  | PClosure _ c => PClosure 0 c
  | PStruct _ path rest fields => PStruct 0 path rest (map (fun fp => (fst fp, erase (snd fp))) fields)
  | PEnum _ path elems => PEnum 0 path (map (fun el => (fst el, erase (snd el))) elems)
  | PTuple _ sp elems => PTuple 0 sp (map (fun el => (fst el, erase (snd el))) elems)
  | PSlice _ sp elems => PSlice 0 sp (map erase elems)
  | PSet _ sp rest elems => PSet 0 sp rest (map erase elems)
  | PMap _ sp rest entries => PMap 0 sp rest (map (fun kv => (fst kv, erase (snd kv))) entries)
  end.

Definition erase2 {K} (l : list (K * pat)) : list (K * pat) := map (fun x => (fst x, erase (snd x))) l.

Definition Rpat (p p' : pat) : Prop := erase p = erase p'.
Definition Rpair {K} (r r' : list (K * pat) * bool) : Prop := erase2 (fst r) = erase2 (fst r') /\ snd r = snd r'.
Definition Relems (r r' : list (option fop * pat)) : Prop := erase2 r = erase2 r'.
Definition Relem (el el' : option fop * pat) : Prop := fst el = fst el' /\ erase (snd el) = erase (snd el').
Definition Rlist (r r' : list pat) : Prop := map erase r = map erase r'.
Definition Rset (r r' : list pat * bool) : Prop := map erase (fst r) = map erase (fst r') /\ snd r = snd r'.
Definition Rany {A} (a a' : A) : Prop := True.

(* ---- two runs --------------------------------------------------------------------------- *)

Definition sim {A} (R : A -> A -> Prop) (r r' : pres A) : Prop :=
  r = PFuel \/ r' = PFuel \/
  match r, r' with
  | POk a st, POk a' st' => R a a' /\ toks st = toks st' /\ unx st = unx st'
  | PErr _ _, PErr _ _ => True
  | PPanic _, PPanic _ => True
  | _, _ => False
  end.

Definition simM {A} (R : A -> A -> Prop) (m m' : M A) : Prop :=
  forall sc sc' st st', toks st = toks st' -> unx st = unx st' -> sim R (m sc st) (m' sc' st').

Lemma sim_ok {A} (R : A -> A -> Prop) a a' st st' :
  R a a' -> toks st = toks st' -> unx st = unx st' -> sim R (POk a st) (POk a' st').
Proof. intros. right; right. auto. Qed.
Lemma sim_err {A} (R : A -> A -> Prop) s c s' c' : sim R (PErr s c) (PErr s' c').
Proof. right; right. exact I. Qed.

Lemma sim_ret {A} (R : A -> A -> Prop) a a' : R a a' -> simM R (ret a) (ret a').
Proof. intros H sc sc' st st' Ht Hu. apply sim_ok; assumption. Qed.

Lemma sim_bind {A B} (R : A -> A -> Prop) (Q : B -> B -> Prop) (m m' : M A) (k k' : A -> M B) :
  simM R m m' -> (forall a a', R a a' -> simM Q (k a) (k' a')) -> simM Q (bind m k) (bind m' k').
Proof.
  intros Hm Hk sc sc' st st' Ht Hu. specialize (Hm sc sc' st st' Ht Hu). unfold bind.
  destruct (m sc st) as [a s1|e c|s|], (m' sc' st') as [a' s1'|e' c'|s'|];
    try (left; reflexivity); try (right; left; reflexivity);
    destruct Hm as [Hm|[Hm|Hm]]; try discriminate; try contradiction; try (apply sim_err); try (right; right; exact I).
  destruct Hm as (Ha & Ht1 & Hu1). exact (Hk a a' Ha sc sc' s1 s1' Ht1 Hu1).
Qed.

Lemma sim_fail {A} (R : A -> A -> Prop) : simM R (@fail A) (@fail A).
Proof. intros sc sc' st st' _ _. apply sim_err. Qed.
Lemma sim_fail_at {A} (R : A -> A -> Prop) sp sp' : simM R (@fail_at A sp) (@fail_at A sp').
Proof. intros sc sc' st st' _ _. apply sim_err. Qed.
Lemma sim_panic {A} (R : A -> A -> Prop) s s' : simM R (@panic A s) (@panic A s').
Proof. intros sc sc' st st' _ _. right; right. exact I. Qed.
Lemma sim_fuel_l {A} (R : A -> A -> Prop) m' : simM R (@out_of_fuel A) m'.
Proof. intros sc sc' st st' _ _. left. reflexivity. Qed.
Lemma sim_fuel_r {A} (R : A -> A -> Prop) m : simM R m (@out_of_fuel A).
Proof. intros sc sc' st st' _ _. right; left. reflexivity. Qed.
Lemma sim_get_toks : simM eq get_toks get_toks.
Proof. intros sc sc' st st' Ht Hu. apply sim_ok; assumption. Qed.
Lemma sim_advance n : simM eq (advance n) (advance n).
Proof. intros sc sc' st st' Ht Hu. apply sim_ok; cbn [toks unx]; try rewrite Ht; try rewrite Hu; reflexivity. Qed.
Lemma sim_fresh : simM Rany fresh fresh.
Proof. intros sc sc' st st' Ht Hu. apply sim_ok; cbn; auto. exact I. Qed.
Lemma sim_note_unx u : simM eq (note_unx u) (note_unx u).
Proof. intros sc sc' st st' Ht Hu. apply sim_ok; cbn [toks unx]; try rewrite Ht; try rewrite Hu; reflexivity. Qed.
Lemma sim_is_empty : simM eq is_empty is_empty.
Proof. intros sc sc' st st' Ht Hu. apply sim_ok; cbn [toks unx]; try rewrite Ht; try rewrite Hu; reflexivity. Qed.
Lemma sim_peek f : simM eq (peek f) (peek f).
Proof. intros sc sc' st st' Ht Hu. apply sim_ok; cbn [toks unx]; try rewrite Ht; try rewrite Hu; reflexivity. Qed.

Lemma sim_weaken {A} (R Q : A -> A -> Prop) m m' : (forall a a', R a a' -> Q a a') -> simM R m m' -> simM Q m m'.
Proof.
  intros HRQ H sc sc' st st' Ht Hu. specialize (H sc sc' st st' Ht Hu).
  destruct H as [H|[H|H]]; [left; exact H|right; left; exact H|]. right; right.
  destruct (m sc st), (m' sc' st'); try exact H. destruct H as (Ha & H). split; [apply HRQ; exact Ha|exact H].
Qed.

Lemma sim_p_punct s : simM eq (p_punct s) (p_punct s).
Proof.
  unfold p_punct. eapply sim_bind; [apply sim_get_toks|]. intros ts ? <-.
  destruct (peek_punct s ts); [|apply sim_fail].
  eapply sim_bind; [apply sim_advance|]. intros _ _ _. apply sim_ret. reflexivity.
Qed.

Definition Rgroup {A} (R : A -> A -> Prop) (g g' : span * span * span * A) : Prop :=
  fst g = fst g' /\ R (snd g) (snd g').

Lemma sim_in_group {A} (R : A -> A -> Prop) d (body body' : M A) :
  simM R body body' -> simM (Rgroup R) (in_group d body) (in_group d body').
Proof.
  intros Hb sc sc' st st' Ht Hu. unfold in_group. rewrite <- Ht.
  destruct (toks st) as [|t r]; [apply sim_err|].
  destruct t as [| | |d' sp spo spc inner]; try apply sim_err.
  destruct (delim_eqb d d'); [|apply sim_err].
  match goal with |- sim _ (match body ?s ?x with _ => _ end) (match body' ?s' ?x' with _ => _ end) =>
    specialize (Hb s s' x x' eq_refl Hu); destruct (body s x) as [a s1|e c|z|], (body' s' x') as [a' s1'|e' c'|z'|] end;
    try (left; reflexivity); try (right; left; reflexivity);
    destruct Hb as [Hb|[Hb|Hb]]; try discriminate; try contradiction; try (apply sim_err); try (right; right; exact I).
  destruct Hb as (Ha & Ht1 & Hu1). apply sim_ok; cbn; [split; [reflexivity|exact Ha]|reflexivity|].
  rewrite Ht1, Hu1. reflexivity.
Qed.

Definition Rfork {A} (R : A -> A -> Prop) (o o' : option (A * list ttree)) : Prop :=
  match o, o' with
  | Some (a, t), Some (a', t') => R a a' /\ t = t'
  | None, None => True
  | _, _ => False
  end.

Lemma sim_fork {A} (R : A -> A -> Prop) (m m' : M A) : simM R m m' -> simM (Rfork R) (fork m) (fork m').
Proof.
  intros Hm sc sc' st st' Ht Hu. unfold fork.
  match goal with |- sim _ (match m ?s ?x with _ => _ end) (match m' ?s' ?x' with _ => _ end) =>
    specialize (Hm s s' x x' Ht eq_refl); destruct (m s x) as [a s1|e c|z|], (m' s' x') as [a' s1'|e' c'|z'|] end;
    try (left; reflexivity); try (right; left; reflexivity);
    destruct Hm as [Hm|[Hm|Hm]]; try discriminate; try contradiction; try (right; right; exact I).
  - destruct Hm as (Ha & Ht1 & Hu1). apply sim_ok; cbn; auto.
  - apply sim_ok; cbn; auto.
Qed.

(* `sp <- cur_span ;; k sp`: the two spans agree unless no token is left *)
Lemma sim_cur_span_bind {B} (Q : B -> B -> Prop) (k k' : span -> M B) :
  (forall sp, simM Q (k sp) (k' sp)) ->
  (forall sp sp' sc sc' st st', toks st = [] -> toks st' = [] -> sim Q (k sp sc st) (k' sp' sc' st')) ->
  simM Q (bind cur_span k) (bind cur_span k').
Proof.
  intros Hne He sc sc' st st' Ht Hu. unfold bind, cur_span, here. rewrite <- Ht.
  destruct (toks st) as [|t r] eqn:E.
  - apply He; [exact E|symmetry; exact Ht].
  - apply Hne; [rewrite E; exact Ht|exact Hu].
Qed.

Global Hint Resolve sim_fail sim_fail_at sim_panic sim_fuel_l sim_fuel_r sim_get_toks sim_advance sim_fresh sim_note_unx
     sim_is_empty sim_peek sim_p_punct : simdb.

Ltac sim_intro :=
  let a := fresh "a" in let a' := fresh "a'" in let H := fresh "Hr" in
  intros a a' H;
  first [ subst a' | idtac ].

Ltac sim_rel :=
  first [ reflexivity | exact I | assumption
        | solve [ repeat match goal with
                         | H : Rgroup _ _ _ |- _ => destruct H as [? ?]
                         | x : (_ * _)%type |- _ => destruct x
                         end; cbn [fst snd] in *; subst; reflexivity ]
        | solve [ repeat match goal with
                         | H : Rgroup _ _ _ |- _ => destruct H as [? ?]
                         | x : (_ * _)%type |- _ => destruct x
                         end; cbn [fst snd] in *; congruence ] ].

Ltac sim_go :=
  repeat first
    [ solve [eauto with simdb]
    | apply sim_ret; solve [sim_rel]
    | eapply sim_bind; [solve [eauto with simdb]|sim_intro]
    | match goal with
      | H : Rgroup _ ?g ?g' |- simM _ (match ?g with _ => _ end) (match ?g' with _ => _ end) =>
          let H1 := fresh "Hg1" in let H2 := fresh "Hg2" in
          destruct g as [[[? ?] ?] ?], g' as [[[? ?] ?] ?], H as [H1 H2]; cbn [fst snd] in H1, H2; inversion H1; subst; clear H1
      | H : Rfork _ ?o ?o' |- simM _ (match ?o with _ => _ end) (match ?o' with _ => _ end) =>
          let H1 := fresh "Hf1" in let H2 := fresh "Hf2" in
          destruct o as [[? ?]|], o' as [[? ?]|]; cbn [Rfork] in H; try contradiction;
          [destruct H as [H1 H2]; try subst | clear H]
      | |- simM _ (if ?b then _ else _) (if ?b then _ else _) => destruct b
      | |- simM _ (let (_, _) := ?p in _) (let (_, _) := ?q in _) => destruct p, q
      | |- simM _ (match ?x with _ => _ end) (match ?x with _ => _ end) => destruct x
      | |- simM _ (let _ := _ in _) _ => cbv zeta
      end ].

Section UniformP.
  Variable regex join_ok : bool.
  Variable parse_expr : list ttree -> ores expr_ok.
  Variable parse_path : list ttree -> ores path_ok.
  Variable parse_closure : list ttree -> ores closure_ok.

  Notation p_expr := (p_expr parse_expr).
  Notation p_path := (p_path parse_path).
  Notation p_closure := (p_closure parse_closure).
  Notation p_pattern := (p_pattern regex join_ok parse_expr parse_path parse_closure).
  Notation p_struct := (p_struct regex join_ok parse_expr parse_path parse_closure).
  Notation p_fields := (p_fields regex join_ok parse_expr parse_path parse_closure).
  Notation p_enum := (p_enum regex join_ok parse_expr parse_path parse_closure).
  Notation p_tuple := (p_tuple regex join_ok parse_expr parse_path parse_closure).
  Notation p_elems := (p_elems regex join_ok parse_expr parse_path parse_closure).
  Notation p_indexed := (p_indexed regex join_ok parse_expr parse_path parse_closure).
  Notation p_slice := (p_slice regex join_ok parse_expr parse_path parse_closure).
  Notation p_list := (p_list regex join_ok parse_expr parse_path parse_closure).
  Notation p_set := (p_set regex join_ok parse_expr parse_path parse_closure).
  Notation p_set_elems := (p_set_elems regex join_ok parse_expr parse_path parse_closure).
  Notation p_map := (p_map regex join_ok parse_expr parse_path parse_closure).
  Notation p_map_entries := (p_map_entries regex join_ok parse_expr parse_path parse_closure).

  Lemma sim_p_expr : simM eq p_expr p_expr.
  Proof.
    intros sc sc' st st' Ht Hu. unfold Parser.p_expr. rewrite <- Ht.
    destruct (parse_expr (toks st)); [|apply sim_err]. apply sim_ok; cbn; congruence.
  Qed.
  Lemma sim_p_path : simM eq p_path p_path.
  Proof.
    intros sc sc' st st' Ht Hu. unfold Parser.p_path. rewrite <- Ht.
    destruct (parse_path (toks st)); [|apply sim_err]. apply sim_ok; cbn; congruence.
  Qed.
  Lemma sim_p_closure : simM eq p_closure p_closure.
  Proof.
    intros sc sc' st st' Ht Hu. unfold Parser.p_closure. rewrite <- Ht.
    destruct (parse_closure (toks st)); [|apply sim_err]. apply sim_ok; cbn; congruence.
  Qed.
  Hint Resolve sim_p_expr sim_p_path sim_p_closure : simdb.

  Lemma sim_p_field_name : simM eq p_field_name p_field_name.
  Proof.
    intros sc sc' st st' Ht Hu. unfold p_field_name. rewrite <- Ht.
    destruct (toks st) as [|t r]; [apply sim_err|].
    destruct t as [s sp| |k ? sp|]; try apply sim_err.
    - destruct (is_keyword s); [apply sim_err|]. apply sim_ok; cbn; congruence.
    - destruct k as [|[n|]| |]; try apply sim_err. destruct (index_fits n); [|apply sim_err]. apply sim_ok; cbn; congruence.
  Qed.
  Hint Resolve sim_p_field_name : simdb.

  Lemma sim_p_args : forall f f', simM eq (p_args parse_expr f) (p_args parse_expr f').
  Proof.
    induction f as [|f IH]; intros f'; [apply sim_fuel_l|]. destruct f' as [|f']; [apply sim_fuel_r|].
    cbn [p_args]. specialize (IH f'). sim_go.
  Qed.
  Hint Resolve sim_p_args : simdb.

  (* after `.`: with no token left both runs fail at p_punct, so the span of the dot is the same whenever it is used *)
  Lemma sim_p_dot_op f f' : simM eq (p_dot_op parse_expr f) (p_dot_op parse_expr f').
  Proof.
    unfold p_dot_op. apply sim_cur_span_bind.
    - intros dot. pose proof (sim_p_args f f') as Ha. pose proof (sim_in_group eq DParen _ _ Ha) as Hg. sim_go.
    - intros sp sp' sc sc' st st' E E'. unfold bind, p_punct, bind, get_toks. rewrite E, E'. cbn. apply sim_err.
  Qed.
  Hint Resolve sim_p_dot_op : simdb.

  Lemma sim_p_one_op f f' : simM eq (p_one_op parse_expr f) (p_one_op parse_expr f').
  Proof.
    unfold p_one_op. pose proof (sim_in_group eq DBracket _ _ sim_p_expr) as Hg. sim_go.
  Qed.
  Hint Resolve sim_p_one_op : simdb.

  Lemma sim_p_ops_loop : forall f f', simM eq (p_ops_loop parse_expr f) (p_ops_loop parse_expr f').
  Proof.
    induction f as [|f IH]; intros f'; [apply sim_fuel_l|]. destruct f' as [|f']; [apply sim_fuel_r|].
    cbn [p_ops_loop]. specialize (IH f'). sim_go.
  Qed.
  Hint Resolve sim_p_ops_loop : simdb.

  Lemma sim_p_field_operation f f' : simM eq (p_field_operation parse_expr f) (p_field_operation parse_expr f').
  Proof.
    unfold p_field_operation. apply sim_cur_span_bind.
    - intros sp. sim_go.
    - intros sp sp' sc sc' st st' E E'. unfold bind, get_toks, advance, p_field_name. rewrite E, E'. cbn. apply sim_err.
  Qed.
  Hint Resolve sim_p_field_operation : simdb.

  Lemma sim_p_cmp_op : simM eq (p_cmp_op join_ok) (p_cmp_op join_ok).
  Proof. unfold p_cmp_op. sim_go. Qed.
  Hint Resolve sim_p_cmp_op : simdb.

  Ltac rel_go :=
    unfold Rpat, Rpair, Relems, Relem, Rlist, Rset, erase2 in *; cbn [erase fst snd map] in *;
    repeat match goal with H : _ /\ _ |- _ => destruct H end; subst; try congruence; try (split; congruence).

  Lemma sim_leaves :
    simM Rpat (p_comparison join_ok parse_expr) (p_comparison join_ok parse_expr) /\
    simM Rpat (p_like parse_expr) (p_like parse_expr) /\
    simM Rpat (p_closure_pat parse_closure) (p_closure_pat parse_closure) /\
    simM Rpat (p_range parse_expr) (p_range parse_expr) /\
    simM Rpat (p_simple parse_expr) (p_simple parse_expr) /\
    simM Rpat p_wild p_wild.
  Proof.
    unfold p_comparison, p_like, p_closure_pat, p_range, p_simple, p_wild.
    repeat split; sim_go; apply sim_ret; rel_go.
  Qed.

  Definition all_sim (f : nat) : Prop :=
    (forall f', simM Rpat (p_pattern f) (p_pattern f')) /\
    (forall f', simM Rpat (p_struct f) (p_struct f')) /\
    (forall f', simM Rpair (p_fields f) (p_fields f')) /\
    (forall f', simM Rpat (p_enum f) (p_enum f')) /\
    (forall f', simM Rpat (p_tuple f) (p_tuple f')) /\
    (forall f' pos, simM Relems (p_elems f pos) (p_elems f' pos)) /\
    (forall f' pos, simM Relem (p_indexed f pos) (p_indexed f' pos)) /\
    (forall f', simM Rpat (p_slice f) (p_slice f')) /\
    (forall f', simM Rlist (p_list f) (p_list f')) /\
    (forall f', simM Rpat (p_set f) (p_set f')) /\
    (forall f', simM Rset (p_set_elems f) (p_set_elems f')) /\
    (forall f', simM Rpat (p_map f) (p_map f')) /\
    (forall f', simM Rpair (p_map_entries f) (p_map_entries f')).

  Lemma all_sim_holds : forall f, all_sim f.
  Proof.
    induction f as [|f IH].
    { unfold all_sim; repeat split; intros; apply sim_fuel_l. }
    destruct IH as (Hpat & Hstruct & Hfields & Henum & Htuple & Helems & Hindexed & Hslice & Hlist &
                    Hset & Hsetel & Hmap & Hmapen).
    destruct sim_leaves as (Lcmp & Llike & Lclos & Lrange & Lsimple & Lwild).
    unfold all_sim. repeat split; intros f'; try (match goal with |- forall pos : N, _ => intros pos end); (destruct f' as [|f']; [apply sim_fuel_r|]);
      specialize (Hpat f'); specialize (Hstruct f'); specialize (Hfields f'); specialize (Henum f');
      specialize (Htuple f'); specialize (Helems f'); specialize (Hindexed f'); specialize (Hslice f');
      specialize (Hlist f'); specialize (Hset f'); specialize (Hsetel f'); specialize (Hmap f'); specialize (Hmapen f').
    - (* p_pattern *)
      cbn [Parser.p_pattern].
      pose proof (sim_fork _ _ _ sim_p_path) as Fpath. pose proof (sim_fork _ _ _ Lrange) as Frange.
      sim_go.
      all: try (apply sim_ret; rel_go).
    - (* p_struct *)
      cbn [Parser.p_struct]. pose proof (sim_in_group _ DBrace _ _ Hfields) as G.
      sim_go.
      eapply sim_bind with (R := eq).
      { destruct a0 as [|[s sp| | |] r]; sim_go. }
      sim_intro. sim_go.
      all: match goal with H : Rpair _ _ |- _ => destruct H as [Hfs Hrest] end; cbn [fst snd] in Hfs, Hrest; subst.
      all: sim_go; apply sim_ret; rel_go.
    - (* p_fields *)
      cbn [Parser.p_fields]. pose proof (sim_p_field_operation f f') as Hop.
      sim_go.
      all: try (apply sim_ret; rel_go).
    - (* p_enum *)
      cbn [Parser.p_enum]. pose proof (sim_in_group _ DParen _ _ (Helems 0%N)) as G.
      sim_go.
      eapply sim_bind with (R := Relems).
      { destruct a0; sim_go; apply sim_ret; rel_go. }
      sim_intro. sim_go. apply sim_ret; rel_go.
    - (* p_tuple *)
      cbn [Parser.p_tuple]. pose proof (sim_in_group _ DParen _ _ (Helems 0%N)) as G.
      sim_go.
      all: try (apply sim_ret; rel_go).
    - (* p_elems *)
      cbn [Parser.p_elems]. pose proof (sim_fork _ _ _ Hpat) as Fpat.
      sim_go.
      eapply sim_bind with (R := Relem).
      { match goal with H : Rfork _ ?o ?o' |- _ =>
          destruct o as [[? ?]|], o' as [[? ?]|]; cbn [Rfork] in H; try contradiction; [destruct H as [_ ->]|clear H] end.
        - sim_go. apply sim_ret; rel_go.
        - sim_go. }
      sim_intro. sim_go.
      eapply sim_bind with (R := eq).
      { sim_go. }
      sim_intro. sim_go. all: try (apply sim_ret; rel_go).
    - (* p_indexed *)
      cbn [Parser.p_indexed]. pose proof (sim_p_field_operation f f') as Hop.
      sim_go.
      all: try (apply sim_ret; rel_go).
    - (* p_slice *)
      cbn [Parser.p_slice]. pose proof (sim_in_group _ DBracket _ _ Hlist) as G.
      sim_go.
      all: try (apply sim_ret; rel_go).
    - (* p_list *)
      cbn [Parser.p_list].
      sim_go.
      eapply sim_bind with (R := eq).
      { sim_go. }
      sim_intro. sim_go. apply sim_ret; rel_go.
    - (* p_set *)
      cbn [Parser.p_set]. pose proof (sim_in_group _ DParen _ _ Hsetel) as G.
      sim_go.
      all: try (apply sim_ret; rel_go).
    - (* p_set_elems *)
      cbn [Parser.p_set_elems].
      sim_go.
      all: try (apply sim_ret; rel_go).
      eapply sim_bind with (R := eq).
      { sim_go. }
      sim_intro. sim_go. all: try (apply sim_ret; rel_go).
    - (* p_map *)
      cbn [Parser.p_map]. pose proof (sim_in_group _ DBrace _ _ Hmapen) as G.
      sim_go.
      all: try (apply sim_ret; rel_go).
    - (* p_map_entries *)
      cbn [Parser.p_map_entries].
      sim_go.
      all: try (apply sim_ret; rel_go).
  Qed.

  (* ---- the theorem: p_pattern does not depend on fuel, counter or scope ------------------- *)

  Theorem pattern_parser_uniform f f' sc sc' ts c c' u :
    sim Rpat (p_pattern f sc {| toks := ts; ctr := c; unx := u |})
             (p_pattern f' sc' {| toks := ts; ctr := c'; unx := u |}).
  Proof. apply (proj1 (all_sim_holds f) f'); reflexivity. Qed.

  (* `ts` is accepted as a complete pattern: some call of Pattern::parse on exactly these remaining
     tokens (the root pattern, the last field of a struct pattern, the last value of a map pattern, ...)
     consumes them all, leaves no unexpected-token record and builds p *)
  Definition accepted_alone (ts : list ttree) (p : pat) : Prop :=
    exists f sc c st, p_pattern f sc {| toks := ts; ctr := c; unx := None |} = POk p st /\ toks st = [] /\ unx st = None.

  (* the outcome "out of fuel, or accepted as q with q = p up to node ids, everything consumed" *)
  Definition same_or_fuel {A} (r : pres A) (good : A -> Prop) : Prop :=
    r = PFuel \/ exists a st, r = POk a st /\ good a /\ toks st = [] /\ unx st = None.

  Lemma accepted_anywhere ts p : accepted_alone ts p ->
    forall f' sc' c', same_or_fuel (p_pattern f' sc' {| toks := ts; ctr := c'; unx := None |}) (fun q => erase q = erase p).
  Proof.
    intros (f & sc & c & st & Hrun & Ht & Hu) f' sc' c'.
    pose proof (pattern_parser_uniform f f' sc sc' ts c c' None) as H. rewrite Hrun in H.
    destruct H as [H|[H|H]]; [discriminate|left; exact H|].
    destruct (p_pattern f' sc' _) as [q st'| | |]; try contradiction.
    destruct H as (Hq & Ht' & Hu'). right. exists q, st'. repeat split; [symmetry; exact Hq|congruence|congruence].
  Qed.
End UniformP.
