(* Proofs about Model/Like.v (C01 / C02: `=~` by the matcher's answer). *)
From ASModel Require Import Base Like.

Section LikeP.
  Variable regex : Type.
  Variable compile : string -> option regex.
  Variable is_match : regex -> string -> bool.

  (* every built-in impl answers exactly what the matcher answers for the compiled pattern: all six agree, and the answer does
     not depend on anything but the text and the pattern (no state: the same question always has the same answer) *)
  Theorem like_is_the_matchers_answer : forall s p re, compile p = Some re ->
    like_all regex compile is_match s p = repeat (is_match re s) 6.
  Proof. intros s p re H. unfold like_all, like_string, like_regex, like_str. rewrite H. reflexivity. Qed.

  (* a pattern that does not compile matches nothing (and the Regex impls are not reachable with it) *)
  Theorem like_invalid_pattern_matches_nothing : forall s p, compile p = None ->
    like_all regex compile is_match s p = repeat false 4.
  Proof. intros s p H. unfold like_all, like_string, like_str. rewrite H. reflexivity. Qed.

  Theorem closure_condition_is_the_predicates_answer : forall T (v : T) f, check_closure_condition v f = f v.
  Proof. reflexivity. Qed.
End LikeP.
