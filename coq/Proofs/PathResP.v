(* Proofs about Model/PathRes.v (C18, and the working-directory half of C17). *)
From ASModel Require Import Base PathRes.

Lemma comp_eqb_refl c : comp_eqb c c = true.
Proof. destruct c; cbn; try reflexivity. apply String.eqb_refl. Qed.

Lemma list_eqb_refl {A} (eqb : A -> A -> bool) (H : forall a, eqb a a = true) l : list_eqb eqb l l = true.
Proof. induction l as [|x l IH]; cbn; [reflexivity|rewrite H, IH; reflexivity]. Qed.

Lemma skipn_app_exact {A} (l1 l2 : list A) : skipn (List.length (l1 ++ l2) - List.length l2) (l1 ++ l2) = l2.
Proof.
  rewrite app_length. replace (List.length l1 + List.length l2 - List.length l2)%nat with (List.length l1) by lia.
  rewrite skipn_app, skipn_all, Nat.sub_diag. reflexivity.
Qed.

Lemma firstn_app_exact {A} (l1 l2 : list A) : firstn (List.length l1) (l1 ++ l2) = l1.
Proof. rewrite firstn_app, Nat.sub_diag, firstn_all. cbn. apply app_nil_r. Qed.

Lemma firstn_app_root {A} (l1 l2 : list A) : firstn (List.length (l1 ++ l2) - List.length l2) (l1 ++ l2) = l1.
Proof.
  rewrite app_length. replace (List.length l1 + List.length l2 - List.length l2)%nat with (List.length l1) by lia.
  apply firstn_app_exact.
Qed.

(* the package directory's components always overlap *)
Lemma member_overlaps ws member src :
  member <> [] -> In (List.length member) (overlaps (ws ++ member) (member ++ src)).
Proof.
  intros Hne. unfold overlaps. apply filter_In. split.
  - apply in_seq. rewrite !app_length. destruct member; [contradiction|cbn; lia].
  - unfold overlap_at. rewrite skipn_app_exact, firstn_app_exact.
    apply list_eqb_refl. exact comp_eqb_refl.
Qed.

Lemma find_unique {A} (P : A -> bool) (l : list A) (x : A) :
  In x l -> P x = true -> (forall y, In y l -> P y = true -> y = x) -> find P l = Some x.
Proof.
  induction l as [|a l IH]; intros Hin Hx Hu; [destruct Hin|]. cbn.
  destruct (P a) eqn:E.
  - f_equal. apply Hu; [left; reflexivity|exact E].
  - destruct Hin as [->|Hin]; [congruence|]. apply IH; [exact Hin|exact Hx|].
    intros y Hy; apply Hu; right; exact Hy.
Qed.

Section Fs.
  Variable is_file : string -> bool.

  (* C18: in an unambiguous layout — the true file exists and no other candidate
     (workspace-root guess joined with the file string) does — the true path is
     chosen, whatever the depth of the member and however directory names repeat. *)
  Theorem resolves_unambiguous : forall manifest_dir file ws member src,
    components manifest_dir = ws ++ member ->
    components file = member ++ src ->
    let truth := push (render ws) file in
    is_file truth = true ->
    (forall o, In o (overlaps (ws ++ member) (member ++ src) ++ [0]) ->
               is_file (resolve_with (ws ++ member) file o) = true ->
               resolve_with (ws ++ member) file o = truth) ->
    absolute_source_path is_file manifest_dir file = truth.
  Proof.
    intros manifest_dir file ws member src Hm Hf truth Hex Huniq.
    unfold absolute_source_path. rewrite Hm, Hf.
    assert (Htruth : resolve_with (ws ++ member) file (List.length member) = truth).
    { unfold resolve_with. rewrite firstn_app_root. reflexivity. }
    assert (Hin : In (List.length member) (rev (overlaps (ws ++ member) (member ++ src)) ++ [0])).
    { destruct member as [|c member'] eqn:E.
      - apply in_or_app; right; left; reflexivity.
      - rewrite <- E in *. apply in_or_app; left. apply -> in_rev.
        apply member_overlaps. rewrite E. discriminate. }
    rewrite (find_unique is_file _ truth).
    - reflexivity.
    - rewrite <- Htruth. apply in_map. exact Hin.
    - exact Hex.
    - intros y Hy Hyf. apply in_map_iff in Hy as (o & <- & Ho).
      apply Huniq; [|exact Hyf].
      apply in_app_or in Ho as [Ho|Ho]; apply in_or_app; [left; apply in_rev; exact Ho|right; exact Ho].
  Qed.

  (* an absolute file!() (path dependency outside the workspace) is returned unchanged *)
  Theorem absolute_file_unchanged : forall manifest_dir file,
    is_absolute file = true -> absolute_source_path is_file manifest_dir file = file.
  Proof.
    intros manifest_dir file Habs. unfold absolute_source_path.
    assert (Hr : forall o, resolve_with (components manifest_dir) file o = file).
    { intros o. unfold resolve_with, push. rewrite Habs. reflexivity. }
    destruct (find _ _) as [p|] eqn:E; [|apply Hr].
    apply find_some in E as (Hin & _). apply in_map_iff in Hin as (o & <- & _). apply Hr.
  Qed.

  (* whatever the disk says, the answer is one of the candidates: a prefix of the
     manifest directory's components joined with the file string *)
  Theorem result_is_candidate : forall manifest_dir file,
    exists k, absolute_source_path is_file manifest_dir file =
              push (render (firstn k (components manifest_dir))) file.
  Proof.
    intros manifest_dir file. unfold absolute_source_path.
    destruct (find _ _) as [p|] eqn:E.
    - apply find_some in E as (Hin & _). apply in_map_iff in Hin as (o & <- & _).
      eexists; reflexivity.
    - eexists; reflexivity.
  Qed.
End Fs.

(* record of the repaired defect: a package directory whose name repeats the first
   component of the file string *)
Lemma old_repeated_name_refuted :
  exists manifest_dir file ws member src,
    components manifest_dir = ws ++ member /\ components file = member ++ src /\
    absolute_source_path_old manifest_dir file <> push (render ws) file.
Proof.
  exists "/x/tests"%string, "tests/it.rs"%string, [CRoot; CNormal "x"%string; CNormal "tests"%string], [], [CNormal "tests"%string; CNormal "it.rs"%string].
  repeat split. vm_compute. discriminate.
Qed.
