(* GrammarP.v — soundness of the parser with respect to the declarative grammar (C15):
   whatever the parser accepts derives in Grammar.v.  For every token list, fuel and behaviour of
   syn's own parsers. *)
From Coq Require Import Lia.
From ASModel Require Import Base Tokens Report Ast IR Expand Parser FrontEnd Grammar.
From ASProofs Require Import PatInd ParserP RejectP FuelP.
Local Open Scope string_scope.
Local Open Scope list_scope.

(* ---- inversion of the primitives --------------------------------------------------- *)

Lemma inv_ret {A} (x : A) sc st a st' : ret x sc st = POk a st' -> a = x /\ st' = st.
Proof. intros H; inversion H; auto. Qed.
Lemma inv_get_toks sc st a st' : get_toks sc st = POk a st' -> a = toks st /\ st' = st.
Proof. intros H; inversion H; auto. Qed.
Lemma inv_is_empty sc st a st' :
  is_empty sc st = POk a st' -> a = match toks st with [] => true | _ => false end /\ st' = st.
Proof. intros H; inversion H; auto. Qed.
Lemma inv_peek f sc st a st' : peek f sc st = POk a st' -> a = f (toks st) /\ st' = st.
Proof. intros H; inversion H; auto. Qed.
Lemma inv_cur_span sc st a st' : cur_span sc st = POk a st' -> st' = st.
Proof. intros H; inversion H; auto. Qed.
Lemma inv_fresh sc st a st' : fresh sc st = POk a st' -> toks st' = toks st /\ unx st' = unx st.
Proof. intros H; inversion H; auto. Qed.
Lemma inv_advance n sc st a st' : advance n sc st = POk a st' -> toks st' = skipn n (toks st) /\ unx st' = unx st.
Proof. intros H; inversion H; auto. Qed.

Lemma peek_punct_firstn s : forall l, peek_punct s l = true ->
  peek_punct s (firstn (String.length s) l) = true /\ List.length (firstn (String.length s) l) = String.length s.
Proof.
  induction s as [|c s IH]; intros l H; [discriminate|].
  destruct s as [|c2 s2].
  - cbn in *. destruct l as [|t r]; [discriminate|]. destruct t; try discriminate. cbn. split; [exact H|reflexivity].
  - cbn [peek_punct] in H. destruct l as [|t r]; [discriminate|]. destruct t as [|c' j sp| |]; try discriminate.
    destruct j; [|discriminate]. apply andb_true_iff in H as [Hc Hr].
    destruct (IH r Hr) as [H1 H2].
    change (String.length (String c (String c2 s2))) with (S (String.length (String c2 s2))).
    cbn [firstn]. split.
    + cbn [peek_punct]. rewrite Hc. exact H1.
    + cbn [List.length]. rewrite H2. reflexivity.
Qed.

Lemma split_punct s l : peek_punct s l = true ->
  l = firstn (String.length s) l ++ skipn (String.length s) l /\ is_punct s (firstn (String.length s) l).
Proof. intros H. split; [symmetry; apply firstn_skipn|]. exact (peek_punct_firstn s l H). Qed.

Lemma inv_p_punct s sc st a st' :
  p_punct s sc st = POk a st' ->
  exists x, toks st = x ++ toks st' /\ is_punct s x /\ unx st' = unx st.
Proof.
  unfold p_punct, bind, get_toks. destruct (peek_punct s (toks st)) eqn:Hp; [|discriminate].
  cbn. intros H; inversion H; subst; cbn. destruct (split_punct _ _ Hp) as [E P].
  exists (firstn (String.length s) (toks st)). repeat split; [exact E|apply P|apply P].
Qed.

Lemma first_wins_none a b : first_wins a b = None -> a = None /\ b = None.
Proof. destruct a; cbn; [discriminate|]. intros H; auto. Qed.

Lemma inv_in_group {A} d (body : M A) sc st g st' :
  in_group d body sc st = POk g st' ->
  exists sp spo spc inner stb x,
    toks st = TTGroup d sp spo spc inner :: toks st' /\ g = (sp, spo, spc, x) /\
    body spc {| toks := inner; ctr := ctr st; unx := unx st |} = POk x stb /\
    (unx st' = None -> toks stb = [] /\ unx stb = None).
Proof.
  unfold in_group. destruct (toks st) as [|t r] eqn:Ht; [discriminate|].
  destruct t as [| | |d' sp spo spc inner]; try discriminate.
  destruct (delim_eqb d d') eqn:Hd; [|discriminate].
  assert (d' = d) by (destruct d, d'; try discriminate; reflexivity). subst d'.
  match goal with |- context [body ?u ?v] => destruct (body u v) as [res stb| | |] eqn:E end; try discriminate.
  intros H; inversion H; subst; cbn. exists sp, spo, spc, inner, stb, res. split; [reflexivity|]. split; [reflexivity|]. split; [exact E|].
  intros Hn. apply first_wins_none in Hn as [Hn1 Hn2]. split; [|exact Hn1].
  destruct (toks stb); [reflexivity|discriminate].
Qed.

Lemma inv_fork {A} (m : M A) sc st a st' : fork m sc st = POk a st' -> toks st' = toks st /\ unx st' = unx st.
Proof.
  unfold fork. match goal with |- context [m ?x ?y] => destruct (m x y) end; try discriminate; intros H; inversion H; auto.
Qed.

Lemma unx_back {A} (m : M A) sc st a st' : sticky m -> m sc st = POk a st' -> unx st' = None -> unx st = None.
Proof.
  intros S E Hn. destruct (unx st) as [u|] eqn:Hu; [|reflexivity].
  specialize (S sc st u Hu). rewrite E in S. congruence.
Qed.

(* every parser function leaves a suffix of the tokens it was given *)
Definition sfx {A} (m : M A) : Prop :=
  forall sc st a st', m sc st = POk a st' -> exists pre, toks st = pre ++ toks st'.

Lemma sfx_ret {A} (x : A) : sfx (ret x).
Proof. intros sc st a st' H; inversion H; subst. exists []. reflexivity. Qed.
Lemma sfx_bind {A B} (m : M A) (k : A -> M B) : sfx m -> (forall a, sfx (k a)) -> sfx (bind m k).
Proof.
  intros Hm Hk sc st b st'' E. apply bind_inv in E as (a & st' & E1 & E2).
  destruct (Hm _ _ _ _ E1) as (p1 & H1). destruct (Hk a _ _ _ _ E2) as (p2 & H2).
  exists (p1 ++ p2). rewrite H1, H2. apply app_assoc.
Qed.
Lemma sfx_fail {A} : sfx (@fail A).             Proof. intros sc st a st' H; discriminate. Qed.
Lemma sfx_fail_at {A} sp : sfx (@fail_at A sp). Proof. intros sc st a st' H; discriminate. Qed.
Lemma sfx_panic {A} s : sfx (@panic A s).       Proof. intros sc st a st' H; discriminate. Qed.
Lemma sfx_fuel {A} : sfx (@out_of_fuel A).      Proof. intros sc st a st' H; discriminate. Qed.
Lemma sfx_id {A} (m : M A) : (forall sc st a st', m sc st = POk a st' -> toks st' = toks st) -> sfx m.
Proof. intros H sc st a st' E. exists []. rewrite (H _ _ _ _ E). reflexivity. Qed.
Lemma sfx_cur_span : sfx cur_span.  Proof. apply sfx_id; intros ? ? ? ? H; inversion H; reflexivity. Qed.
Lemma sfx_get_toks : sfx get_toks.  Proof. apply sfx_id; intros ? ? ? ? H; inversion H; reflexivity. Qed.
Lemma sfx_fresh : sfx fresh.        Proof. apply sfx_id; intros ? ? ? ? H; inversion H; reflexivity. Qed.
Lemma sfx_is_empty : sfx is_empty.  Proof. apply sfx_id; intros ? ? ? ? H; inversion H; reflexivity. Qed.
Lemma sfx_peek f : sfx (peek f).    Proof. apply sfx_id; intros ? ? ? ? H; inversion H; reflexivity. Qed.
Lemma sfx_fork {A} (m : M A) : sfx (fork m).
Proof. apply sfx_id. intros sc st a st' H. apply inv_fork in H as [H _]. exact H. Qed.
Lemma sfx_advance n : sfx (advance n).
Proof. intros sc st a st' H; inversion H; subst; cbn. exists (firstn n (toks st)). symmetry; apply firstn_skipn. Qed.
Lemma sfx_p_punct s : sfx (p_punct s).
Proof. intros sc st a st' H. apply inv_p_punct in H as (x & E & _). exists x. exact E. Qed.
Lemma sfx_in_group {A} d (body : M A) : sfx (in_group d body).
Proof.
  intros sc st g st' H. apply inv_in_group in H as (sp & spo & spc & inner & stb & x & E & _).
  exists [TTGroup d sp spo spc inner]. exact E.
Qed.

Global Hint Resolve sfx_ret sfx_fail sfx_fail_at sfx_panic sfx_fuel sfx_cur_span sfx_get_toks sfx_fresh sfx_is_empty
     sfx_peek sfx_fork sfx_advance sfx_p_punct sfx_in_group : sfxdb.

Ltac sfx_go :=
  repeat first
    [ solve [eauto with sfxdb]
    | apply sfx_bind; [|intros ?]
    | match goal with
      | |- sfx (if ?b then _ else _) => destruct b
      | |- sfx (match ?x with _ => _ end) => destruct x
      | |- sfx (let _ := _ in _) => cbv zeta
      end ].

Section GrammarP.
  Variable regex join_ok : bool.
  Variable parse_expr : list ttree -> ores expr_ok.
  Variable parse_path : list ttree -> ores path_ok.
  Variable parse_closure : list ttree -> ores closure_ok.

  Notation p_expr := (p_expr parse_expr).
  Notation p_path := (p_path parse_path).
  Notation p_closure := (p_closure parse_closure).
  Notation p_pattern := (p_pattern regex join_ok parse_expr parse_path parse_closure).
  Notation p_struct := (p_struct regex join_ok parse_expr parse_path parse_closure).
  Notation p_fields := (p_fields regex join_ok parse_expr parse_path parse_closure).
  Notation p_enum := (p_enum regex join_ok parse_expr parse_path parse_closure).
  Notation p_tuple := (p_tuple regex join_ok parse_expr parse_path parse_closure).
  Notation p_elems := (p_elems regex join_ok parse_expr parse_path parse_closure).
  Notation p_indexed := (p_indexed regex join_ok parse_expr parse_path parse_closure).
  Notation p_slice := (p_slice regex join_ok parse_expr parse_path parse_closure).
  Notation p_list := (p_list regex join_ok parse_expr parse_path parse_closure).
  Notation p_set := (p_set regex join_ok parse_expr parse_path parse_closure).
  Notation p_set_elems := (p_set_elems regex join_ok parse_expr parse_path parse_closure).
  Notation p_map := (p_map regex join_ok parse_expr parse_path parse_closure).
  Notation p_map_entries := (p_map_entries regex join_ok parse_expr parse_path parse_closure).
  Notation G_pat := (G_pat regex parse_expr parse_path parse_closure).
  Notation G_fields := (G_fields regex parse_expr parse_path parse_closure).
  Notation G_elems := (G_elems regex parse_expr parse_path parse_closure).
  Notation G_elem := (G_elem regex parse_expr parse_path parse_closure).
  Notation G_list := (G_list regex parse_expr parse_path parse_closure).
  Notation G_set := (G_set regex parse_expr parse_path parse_closure).
  Notation G_setn := (G_setn regex parse_expr parse_path parse_closure).
  Notation G_map := (G_map regex parse_expr parse_path parse_closure).
  Notation G_expr := (G_expr parse_expr).
  Notation G_path := (G_path parse_path).
  Notation G_closure := (G_closure parse_closure).
  Notation G_fop := (G_fop parse_expr).

  Lemma inv_p_expr sc st r st' :
    p_expr sc st = POk r st' ->
    exists x, toks st = x ++ toks st' /\ G_expr x (toks st') r /\ (unx st' = None -> unx st = None).
  Proof.
    unfold Parser.p_expr. destruct (parse_expr (toks st)) as [r0|] eqn:Hr; [|discriminate].
    intros H; inversion H; subst; cbn. exists (firstn (eo_n r) (toks st)).
    pose proof (firstn_skipn (eo_n r) (toks st)) as FS. repeat split.
    - symmetry; exact FS.
    - rewrite FS. exact Hr.
    - rewrite FS. reflexivity.
    - rewrite FS. reflexivity.
    - intros Hn. apply first_wins_none in Hn as [Hn _]. exact Hn.
  Qed.

  Lemma inv_p_path sc st p st' :
    p_path sc st = POk p st' -> exists x, toks st = x ++ toks st' /\ G_path x (toks st') p /\ (unx st' = None -> unx st = None).
  Proof.
    unfold Parser.p_path. destruct (parse_path (toks st)) as [r0|] eqn:Hr; [|discriminate].
    intros H; inversion H; subst; cbn. exists (firstn (po_n r0) (toks st)).
    pose proof (firstn_skipn (po_n r0) (toks st)) as FS. repeat split.
    - symmetry; exact FS.
    - exists r0. rewrite FS. repeat split; try reflexivity. exact Hr.
    - intros Hn. apply first_wins_none in Hn as [Hn _]. exact Hn.
  Qed.

  Lemma inv_p_closure sc st c st' :
    p_closure sc st = POk c st' ->
    exists x, toks st = x ++ toks st' /\ G_closure x (toks st') c /\ (unx st' = None -> unx st = None).
  Proof.
    unfold Parser.p_closure. destruct (parse_closure (toks st)) as [r0|] eqn:Hr; [|discriminate].
    intros H; inversion H; subst; cbn. exists (firstn (co_n c) (toks st)).
    pose proof (firstn_skipn (co_n c) (toks st)) as FS. repeat split.
    - symmetry; exact FS.
    - rewrite FS. exact Hr.
    - rewrite FS. reflexivity.
    - rewrite FS. reflexivity.
    - intros Hn. apply first_wins_none in Hn as [Hn _]. exact Hn.
  Qed.

  Lemma sfx_p_expr : sfx p_expr.
  Proof. intros sc st a st' H. apply inv_p_expr in H as (x & E & _). exists x; exact E. Qed.
  Lemma sfx_p_path : sfx p_path.
  Proof. intros sc st a st' H. apply inv_p_path in H as (x & E & _). exists x; exact E. Qed.
  Lemma sfx_p_closure : sfx p_closure.
  Proof. intros sc st a st' H. apply inv_p_closure in H as (x & E & _). exists x; exact E. Qed.
  Hint Resolve sfx_p_expr sfx_p_path sfx_p_closure : sfxdb.

  Lemma sfx_p_field_name : sfx p_field_name.
  Proof.
    intros sc st a st' H. unfold p_field_name in H.
    destruct (toks st) as [|t r] eqn:Ht; [discriminate|]. destruct t as [s sp| |k ? ?|]; try discriminate.
    - destruct (is_keyword s); [discriminate|]. inversion H; subst; cbn. eexists [_]. reflexivity.
    - destruct k as [|[n|]| |]; try discriminate. destruct (index_fits n); [|discriminate].
      inversion H; subst; cbn. eexists [_]. reflexivity.
  Qed.
  Hint Resolve sfx_p_field_name : sfxdb.

  Lemma sfx_p_args f : sfx (p_args parse_expr f).
  Proof. induction f as [|f IH]; cbn [p_args]; sfx_go. Qed.
  Hint Resolve sfx_p_args : sfxdb.
  Lemma sfx_p_dot_op f : sfx (p_dot_op parse_expr f).
  Proof. unfold p_dot_op. sfx_go. Qed.
  Hint Resolve sfx_p_dot_op : sfxdb.
  Lemma sfx_p_one_op f : sfx (p_one_op parse_expr f).
  Proof. unfold p_one_op. sfx_go. Qed.
  Hint Resolve sfx_p_one_op : sfxdb.
  Lemma sfx_p_ops_loop f : sfx (p_ops_loop parse_expr f).
  Proof. induction f as [|f IH]; cbn [p_ops_loop]; sfx_go. Qed.
  Hint Resolve sfx_p_ops_loop : sfxdb.
  Lemma sfx_p_field_operation f : sfx (p_field_operation parse_expr f).
  Proof. unfold p_field_operation. sfx_go. Qed.

  (* a field-operation chain, as a constituent *)
  Lemma inv_p_field_operation f sc st o st' :
    p_field_operation parse_expr f sc st = POk o st' ->
    exists x, toks st = x ++ toks st' /\ G_fop x (toks st') o /\ (unx st' = None -> unx st = None).
  Proof.
    intros H. destruct (sfx_p_field_operation f _ _ _ _ H) as (x & E). exists x. split; [exact E|]. split.
    - exists f, sc, st, st'. repeat split; assumption.
    - intros Hn. eapply unx_back; [apply sticky_p_field_operation|exact H|exact Hn].
  Qed.

  (* ---- specifications ---------------------------------------------------------------- *)

  Definition snd_pat (m : M pat) : Prop :=
    forall sc st p st', m sc st = POk p st' -> unx st' = None ->
      unx st = None /\ exists pre, toks st = pre ++ toks st' /\ G_pat pre (toks st') p.

  Lemma app_assoc3 {A} (a b c : list A) : a ++ b ++ c = (a ++ b) ++ c.
  Proof. apply app_assoc. Qed.

  Lemma inv_p_cmp_op sc st o st' :
    p_cmp_op join_ok sc st = POk o st' ->
    exists x, toks st = x ++ toks st' /\ is_cmp x (fst o) /\ unx st' = unx st.
  Proof.
    unfold p_cmp_op. intros H. apply bind_inv in H as (ts & s1 & E1 & H). apply inv_get_toks in E1 as [-> ->].
    cbv zeta in H.
    repeat match type of H with
           | (if ?b then _ else _) _ _ = _ => destruct b
           end;
      try discriminate;
      apply bind_inv in H as (sps & s2 & E2 & H); apply inv_ret in H as [-> ->];
      apply inv_p_punct in E2 as (x & E & P & U); exists x; (split; [exact E|]); (split; [exact P|exact U]).
  Qed.

  Lemma snd_p_comparison : snd_pat (p_comparison join_ok parse_expr).
  Proof.
    intros sc st p st' H Hn. unfold p_comparison in H.
    apply bind_inv in H as (o & s1 & E1 & H). apply bind_inv in H as (r & s2 & E2 & H).
    apply bind_inv in H as (id & s3 & E3 & H). apply inv_ret in H as [-> ->].
    apply inv_fresh in E3 as [T3 U3]. apply inv_p_expr in E2 as (xe & Te & Ge & Ue).
    apply inv_p_cmp_op in E1 as (xo & To & Po & Uo).
    rewrite U3 in Hn. specialize (Ue Hn). split; [congruence|].
    exists (xo ++ xe). rewrite T3. split; [rewrite To, Te; apply app_assoc|].
    destruct o as [op osp]. apply G_cmp; assumption.
  Qed.

  Lemma snd_p_like : regex = true -> snd_pat (p_like parse_expr).
  Proof.
    intros Hreg sc st p st' H Hn. unfold p_like in H.
    apply bind_inv in H as (a1 & s1 & E1 & H). apply bind_inv in H as (a2 & s2 & E2 & H).
    apply bind_inv in H as (r & s3 & E3 & H). apply bind_inv in H as (id & s4 & E4 & H).
    apply inv_fresh in E4 as [T4 U4]. apply inv_p_expr in E3 as (xe & Te & Ge & Ue).
    apply inv_p_punct in E2 as (x2 & T2 & P2 & U2). apply inv_p_punct in E1 as (x1 & T1 & P1 & U1).
    assert (Hs4 : unx s4 = None /\ toks st' = toks s4 /\
                  p = match eo_str r with Some v => PRegex id v (u_span (eo_u r)) | None => PLike id (eo_u r) end).
    { destruct (eo_str r); apply inv_ret in H as [-> ->]; auto. }
    destruct Hs4 as (Hn4 & Tf & ->).
    rewrite U4 in Hn4. specialize (Ue Hn4). split; [congruence|].
    exists (x1 ++ x2 ++ xe). split; [rewrite Tf, T4, T1, T2, Te; rewrite <- !app_assoc; reflexivity|].
    rewrite Tf, T4. destruct (eo_str r) eqn:Hs.
    - apply G_regex; assumption.
    - apply G_like; assumption.
  Qed.

  Lemma snd_p_closure_pat : snd_pat (p_closure_pat parse_closure).
  Proof.
    intros sc st p st' H Hn. unfold p_closure_pat in H.
    apply bind_inv in H as (c & s1 & E1 & H).
    destruct (Nat.eqb (co_inputs c) 1) eqn:Hc; [|discriminate]. apply Nat.eqb_eq in Hc.
    apply bind_inv in H as (id & s2 & E2 & H). apply inv_ret in H as [-> ->].
    apply inv_fresh in E2 as [T2 U2]. apply inv_p_closure in E1 as (x & T & G & U).
    rewrite U2 in Hn. split; [auto|]. exists x. rewrite T2. split; [exact T|]. apply G_closure_pat; assumption.
  Qed.

  Lemma snd_p_range : snd_pat (p_range parse_expr).
  Proof.
    intros sc st p st' H Hn. unfold p_range in H.
    apply bind_inv in H as (r & s1 & E1 & H). destruct (eo_range r) as [parts|] eqn:Hr; [|discriminate].
    apply bind_inv in H as (id & s2 & E2 & H). apply inv_ret in H as [-> ->].
    apply inv_fresh in E2 as [T2 U2]. apply inv_p_expr in E1 as (x & T & G & U).
    rewrite U2 in Hn. split; [auto|]. exists x. rewrite T2. split; [exact T|]. apply G_range; assumption.
  Qed.

  Lemma snd_p_simple : snd_pat (p_simple parse_expr).
  Proof.
    intros sc st p st' H Hn. unfold p_simple in H.
    apply bind_inv in H as (r & s1 & E1 & H).
    apply bind_inv in H as (id & s2 & E2 & H). apply inv_ret in H as [-> ->].
    apply inv_fresh in E2 as [T2 U2]. apply inv_p_expr in E1 as (x & T & G & U).
    rewrite U2 in Hn. split; [auto|]. exists x. rewrite T2. split; [exact T|]. apply G_simple; assumption.
  Qed.

  Lemma snd_p_wild : snd_pat p_wild.
  Proof.
    intros sc st p st' H Hn. unfold p_wild in H.
    apply bind_inv in H as (ts & s1 & E1 & H). apply inv_get_toks in E1 as [-> ->].
    destruct (peek_ident "_" (toks st)) eqn:Hp; [|discriminate].
    apply bind_inv in H as (u & s2 & E2 & H). apply bind_inv in H as (id & s3 & E3 & H). apply inv_ret in H as [-> ->].
    apply inv_fresh in E3 as [T3 U3]. apply inv_advance in E2 as [T2 U2].
    split; [congruence|].
    destruct (toks st) as [|t r] eqn:Ht; [discriminate|]. destruct t as [s sp| | |]; try discriminate.
    cbn [peek_ident] in Hp. apply String.eqb_eq in Hp. subst s.
    exists [TTIdent "_" sp]. rewrite T3, T2. cbn. split; [reflexivity|]. apply G_wild.
  Qed.

  Definition snd_fields (m : M (list (fop * pat) * bool)) : Prop :=
    forall sc st r st', m sc st = POk r st' -> unx st' = None -> toks st' = [] ->
      unx st = None /\ G_fields (toks st) (fst r) (snd r).
  Definition snd_elems (pos : N) (m : M (list (option fop * pat))) : Prop :=
    forall sc st r st', m sc st = POk r st' -> unx st' = None -> toks st' = [] ->
      unx st = None /\ G_elems pos (toks st) r.
  Definition snd_elem (pos : N) (m : M (option fop * pat)) : Prop :=
    forall sc st el st', m sc st = POk el st' -> unx st' = None ->
      unx st = None /\ exists pre, toks st = pre ++ toks st' /\ G_elem pos pre (toks st') el.
  Definition snd_list (m : M (list pat)) : Prop :=
    forall sc st r st', m sc st = POk r st' -> unx st' = None -> toks st' = [] ->
      unx st = None /\ G_list (toks st) r.
  Definition snd_set (m : M (list pat * bool)) : Prop :=
    forall sc st r st', m sc st = POk r st' -> unx st' = None -> toks st' = [] ->
      unx st = None /\ G_set (toks st) (fst r) (snd r).
  Definition snd_map (m : M (list (uexpr * pat) * bool)) : Prop :=
    forall sc st r st', m sc st = POk r st' -> unx st' = None -> toks st' = [] ->
      unx st = None /\ G_map (toks st) (fst r) (snd r).

  Definition all_snd (f : nat) : Prop :=
    snd_pat (p_pattern f) /\ snd_pat (p_struct f) /\ snd_fields (p_fields f) /\ snd_pat (p_enum f) /\ snd_pat (p_tuple f) /\
    (forall pos, snd_elems pos (p_elems f pos)) /\ (forall pos, snd_elem pos (p_indexed f pos)) /\ snd_pat (p_slice f) /\
    snd_list (p_list f) /\ snd_pat (p_set f) /\ snd_set (p_set_elems f) /\ snd_pat (p_map f) /\ snd_map (p_map_entries f).

  (* is_punct facts used to recognise the set pattern's rest marker *)
  Lemma is_punct_dots_shape dd : is_punct ".." dd -> exists j1 s1 j2 s2, dd = [TTPunct "." j1 s1; TTPunct "." j2 s2].
  Proof.
    intros [H L]. destruct dd as [|t1 [|t2 [|t3 r]]]; cbn [List.length String.length] in L; try discriminate.
    cbn [peek_punct] in H. destruct t1 as [|c1 j1 s1| |]; try discriminate. destruct j1; [|discriminate].
    destruct t2 as [|c2 j2 s2| |]; try (rewrite andb_false_r in H; discriminate).
    apply andb_true_iff in H as [H1 H2]. apply Ascii.eqb_eq in H1. apply Ascii.eqb_eq in H2. subst.
    eauto.
  Qed.

  Lemma is_punct_comma_shape c : is_punct "," c -> exists j s, c = [TTPunct "," j s].
  Proof.
    intros [H L]. destruct c as [|t1 [|t2 r]]; cbn [List.length String.length] in L; try discriminate.
    cbn [peek_punct] in H. destruct t1 as [|c1 j1 s1| |]; try discriminate. apply Ascii.eqb_eq in H. subst. eauto.
  Qed.

  Lemma peek_rest_of_rest dd : is_punct ".." dd -> peek_rest dd = true.
  Proof. intros H. destruct (is_punct_dots_shape _ H) as (j1 & s1 & j2 & s2 & ->). destruct H as [H _]. unfold peek_rest.
    destruct j1; [|cbn [peek_punct] in H; discriminate]. destruct j2; reflexivity. Qed.

  Lemma peek_rest_of_rest_comma dd c : is_punct ".." dd -> is_punct "," c -> peek_rest (dd ++ c) = true.
  Proof.
    intros H Hc. destruct (is_punct_dots_shape _ H) as (j1 & s1 & j2 & s2 & ->).
    destruct (is_punct_comma_shape _ Hc) as (j & s0 & ->). destruct H as [H _].
    cbn [peek_punct] in H. destruct j1; [|discriminate]. destruct j2; reflexivity.
  Qed.

  Lemma G_set_to_setn l e r : G_set l e r -> peek_rest l = false -> G_setn l e r.
  Proof.
    intros H Hp. destruct H.
    - constructor.
    - rewrite (peek_rest_of_rest _ H) in Hp. discriminate.
    - rewrite (peek_rest_of_rest_comma _ _ H H0) in Hp. discriminate.
    - apply GN_last. assumption.
    - eapply GN_cons; eassumption.
  Qed.

  Lemma is_empty_true_toks (st : pst) : (match toks st with [] => true | _ => false end) = true -> toks st = [].
  Proof. destruct (toks st); [reflexivity|discriminate]. Qed.

  (* a loop called on an empty token list returns the empty result *)
  Lemma p_elems_nil f pos sc st r st' : toks st = [] -> p_elems f pos sc st = POk r st' -> r = [] /\ st' = st.
  Proof.
    intros Ht H. destruct f as [|f]; [discriminate|]. cbn [Parser.p_elems] in H.
    apply bind_inv in H as (e & s1 & E1 & H). apply inv_is_empty in E1 as [-> ->]. rewrite Ht in H.
    apply inv_ret in H as [-> ->]. auto.
  Qed.
  Lemma p_list_nil f sc st r st' : toks st = [] -> p_list f sc st = POk r st' -> r = [] /\ st' = st.
  Proof.
    intros Ht H. destruct f as [|f]; [discriminate|]. cbn [Parser.p_list] in H.
    apply bind_inv in H as (e & s1 & E1 & H). apply inv_is_empty in E1 as [-> ->]. rewrite Ht in H.
    apply inv_ret in H as [-> ->]. auto.
  Qed.

  Lemma all_snd_holds : forall f, all_snd f.
  Proof.
    induction f as [|f IH].
    { unfold all_snd; repeat match goal with |- _ /\ _ => split end; try match goal with |- forall _ : N, _ => intros pos end; intros sc st a st' H; discriminate. }
    destruct IH as (Ipat & Istruct & Ifields & Ienum & Ituple & Ielems & Iindexed & Islice & Ilist &
                    Iset & Isetel & Imap & Imapen).
    unfold all_snd. repeat match goal with |- _ /\ _ => split end; try match goal with |- forall _ : N, _ => intros pos end.
    - (* p_pattern *)
      intros sc st p st' H Hn. cbn [Parser.p_pattern] in H.
      apply bind_inv in H as (ts & s0 & E0 & H). apply inv_get_toks in E0 as [-> ->].
      destruct (peek_punct "|" (toks st) || peek_ident "move" (toks st) && peek2 (peek_punct "|") (toks st));
        [exact (snd_p_closure_pat _ _ _ _ H Hn)|].
      destruct (peek_ident "_" (toks st)).
      { destruct (peek2 (peek_group DBrace) (toks st)); [exact (Istruct _ _ _ _ H Hn)|exact (snd_p_wild _ _ _ _ H Hn)]. }
      destruct (peek_punct "<" (toks st) || peek_punct ">" (toks st) || peek_punct "!" (toks st));
        [exact (snd_p_comparison _ _ _ _ H Hn)|].
      destruct (peek_punct "=" (toks st)).
      { destruct (peek2 (peek_punct "=") (toks st)); [exact (snd_p_comparison _ _ _ _ H Hn)|].
        destruct (regex && peek2 (peek_punct "~") (toks st)) eqn:Hc; [|discriminate].
        apply andb_true_iff in Hc as [Hreg _].
        exact (snd_p_like Hreg _ _ _ _ H Hn). }
      destruct (peek_punct "#" (toks st) && peek2 (peek_group DParen) (toks st)); [exact (Iset _ _ _ _ H Hn)|].
      destruct (peek_punct "#" (toks st) && peek2 (peek_group DBrace) (toks st)); [exact (Imap _ _ _ _ H Hn)|].
      destruct (peek_group DBracket (toks st)); [exact (Islice _ _ _ _ H Hn)|].
      destruct (peek_group DParen (toks st)); [exact (Ituple _ _ _ _ H Hn)|].
      apply bind_inv in H as (pk & s1 & E1 & H). apply inv_fork in E1 as [T1 U1].
      destruct pk as [[pkp after]|].
      { assert (R : unx s1 = None /\ exists pre, toks s1 = pre ++ toks st' /\ G_pat pre (toks st') p).
        { destruct (peek_group DBrace after); [exact (Istruct _ _ _ _ H Hn)|exact (Ienum _ _ _ _ H Hn)]. }
        destruct R as (Un & pre & T & G). split; [congruence|]. exists pre. split; [congruence|exact G]. }
      apply bind_inv in H as (rk & s2 & E2 & H). apply inv_fork in E2 as [T2 U2].
      assert (R : unx s2 = None /\ exists pre, toks s2 = pre ++ toks st' /\ G_pat pre (toks st') p).
      { destruct rk; [exact (snd_p_range _ _ _ _ H Hn)|].
        apply bind_inv in H as (now & s3 & E3 & H). apply inv_get_toks in E3 as [-> ->].
        destruct (toks s2) as [|t r] eqn:Ht; [rewrite <- Ht; exact (snd_p_simple _ _ _ _ H Hn)|].
        destruct t as [| |k text sp|]; try (rewrite <- Ht; exact (snd_p_simple _ _ _ _ H Hn)).
        destruct k as [v| | |]; try (rewrite <- Ht; exact (snd_p_simple _ _ _ _ H Hn)).
        apply bind_inv in H as (u & s4 & E4 & H). apply bind_inv in H as (id & s5 & E5 & H). apply inv_ret in H as [-> ->].
        apply inv_fresh in E5 as [T5 U5]. apply inv_advance in E4 as [T4 U4].
        split; [congruence|]. exists [TTLit (LStr v) text sp]. rewrite T5, T4, Ht. cbn. split; [reflexivity|]. apply G_string. }
      destruct R as (Un & pre & T & G). split; [congruence|]. exists pre. split; [congruence|exact G].
    - (* p_struct *)
      intros sc st p st' H Hn. cbn [Parser.p_struct] in H.
      apply bind_inv in H as (id & s1 & E1 & H). apply inv_fresh in E1 as [T1 U1].
      apply bind_inv in H as (ts & s2 & E2 & H). apply inv_get_toks in E2 as [-> ->].
      apply bind_inv in H as (hd & s3 & E3 & H).
      apply bind_inv in H as (g & s4 & E4 & H).
      apply inv_in_group in E4 as (sp & spo & spc & inner & stb & res & T4 & -> & Eb & Ub).
      destruct res as [fields rest].
      assert (Hfin : s4 = st' /\ p = PStruct id (fst hd) rest fields /\ (fst hd = None -> rest = true)).
      { destruct (fst hd) eqn:Hh, rest; try (apply inv_ret in H as [-> ->]; repeat split; congruence).
        destruct (snd hd); discriminate. }
      destruct Hfin as (-> & -> & Hrest).
      destruct (Ub Hn) as [Tb Unb].
      destruct (Ifields _ _ _ _ Eb Unb Tb) as [Un3 Gf]. cbn [toks unx fst snd] in Un3, Gf.
      (* the head: `_` or a path *)
      assert (Hhd : unx s1 = None /\
                    ((exists usp, fst hd = None /\ toks s1 = TTIdent "_" usp :: toks s3) \/
                     (exists path ptoks, fst hd = Some path /\ toks s1 = ptoks ++ toks s3 /\ G_path ptoks (toks s3) path))).
      { destruct (toks s1) as [|t r] eqn:Ht1.
        - apply bind_inv in E3 as (path & s5 & E5 & E3). apply inv_ret in E3 as [-> ->].
          apply inv_p_path in E5 as (x & T & G & U). split; [apply U; congruence|]. right. exists path, x. rewrite <- Ht1. auto.
        - destruct t as [s usp| | |].
          + destruct (String.eqb s "_") eqn:Hs.
            * apply String.eqb_eq in Hs. subst s.
              apply bind_inv in E3 as (u & s5 & E5 & E3). apply inv_ret in E3 as [-> ->].
              apply inv_advance in E5 as [T5 U5]. rewrite Ht1 in T5. cbn in T5.
              split; [congruence|]. left. exists usp. split; [reflexivity|]. congruence.
            * apply bind_inv in E3 as (path & s5 & E5 & E3). apply inv_ret in E3 as [-> ->].
              apply inv_p_path in E5 as (x & T & G & U). split; [apply U; congruence|]. right. exists path, x. rewrite <- Ht1. auto.
          + apply bind_inv in E3 as (path & s5 & E5 & E3). apply inv_ret in E3 as [-> ->].
            apply inv_p_path in E5 as (x & T & G & U). split; [apply U; congruence|]. right. exists path, x. rewrite <- Ht1. auto.
          + apply bind_inv in E3 as (path & s5 & E5 & E3). apply inv_ret in E3 as [-> ->].
            apply inv_p_path in E5 as (x & T & G & U). split; [apply U; congruence|]. right. exists path, x. rewrite <- Ht1. auto.
          + apply bind_inv in E3 as (path & s5 & E5 & E3). apply inv_ret in E3 as [-> ->].
            apply inv_p_path in E5 as (x & T & G & U). split; [apply U; congruence|]. right. exists path, x. rewrite <- Ht1. auto. }
      destruct Hhd as [Un1 Hhd]. split; [congruence|].
      destruct Hhd as [(usp & Hh & Th)|(path & ptoks & Hh & Th & Gp)].
      + exists [TTIdent "_" usp; TTGroup DBrace sp spo spc inner]. rewrite <- T1, Th, T4. split; [reflexivity|].
        rewrite Hh. rewrite (Hrest Hh) in *. apply G_wstruct. exact Gf.
      + exists (ptoks ++ [TTGroup DBrace sp spo spc inner]). rewrite <- T1, Th, T4. split; [rewrite <- app_assoc; reflexivity|].
        rewrite Hh. apply G_struct_pat; [rewrite T4 in Gp; exact Gp|exact Gf].
    - (* p_fields *)
      intros sc st r st' H Hn Hend. cbn [Parser.p_fields] in H.
      apply bind_inv in H as (e & s1 & E1 & H). apply inv_is_empty in E1 as [-> ->].
      destruct (toks st) as [|t0 r0] eqn:Ht.
      { apply inv_ret in H as [-> ->]. split; [exact Hn|]. apply GF_nil. }
      rewrite <- Ht.
      apply bind_inv in H as (d & s1 & E1 & H). apply inv_peek in E1 as [-> ->].
      destruct (peek_punct ".." (toks st)) eqn:Hd.
      { apply bind_inv in H as (u & s2 & E2 & H). apply inv_ret in H as [-> ->].
        apply inv_p_punct in E2 as (x & T & P & U). split; [congruence|].
        rewrite T, Hend, app_nil_r. apply GF_rest. exact P. }
      apply bind_inv in H as (ops & s2 & E2 & H). apply inv_p_field_operation in E2 as (xo & To & Go & Uo).
      apply bind_inv in H as (u & s3 & E3 & H). apply inv_p_punct in E3 as (xc & Tc & Pc & Uc).
      apply bind_inv in H as (p & s4 & E4 & H).
      apply bind_inv in H as (e2 & s5 & E5 & H). apply inv_is_empty in E5 as [-> ->].
      destruct (toks s4) as [|t4 r4] eqn:Ht4.
      { apply inv_ret in H as [-> ->].
        destruct (Ipat _ _ _ _ E4 Hn) as (Un3 & xp & Tp & Gp). rewrite Ht4 in Tp, Gp. rewrite app_nil_r in Tp.
        split; [apply Uo; congruence|].
        rewrite To, Tc, Tp. cbn [fst snd]. apply GF_last; [rewrite <- Tp, <- Tc; exact Go|exact Pc|exact Gp]. }
      apply bind_inv in H as (u2 & s5 & E5 & H). apply inv_p_punct in E5 as (xm & Tm & Pm & Um).
      apply bind_inv in H as (d2 & s6 & E6 & H). apply inv_peek in E6 as [-> ->].
      destruct (peek_punct ".." (toks s5)) eqn:Hd2.
      { apply bind_inv in H as (u3 & s6 & E6 & H). apply inv_ret in H as [-> ->].
        apply inv_p_punct in E6 as (xd & Td & Pd & Ud).
        assert (Un4 : unx s4 = None) by congruence.
        destruct (Ipat _ _ _ _ E4 Un4) as (Un3 & xp & Tp & Gp).
        split; [apply Uo; congruence|].
        rewrite Hend, app_nil_r in Td.
        rewrite To, Tc, Tp, Tm, Td. cbn [fst snd].
        apply GF_cons; [rewrite <- Td, <- Tm, <- Tp, <- Tc; exact Go|exact Pc|rewrite <- Td, <- Tm; exact Gp|exact Pm|apply GF_rest; exact Pd]. }
      apply bind_inv in H as (more & s6 & E6 & H). apply inv_ret in H as [-> ->].
      destruct (Ifields _ _ _ _ E6 Hn Hend) as [Un5 Gm].
      assert (Un4 : unx s4 = None) by congruence.
      destruct (Ipat _ _ _ _ E4 Un4) as (Un3 & xp & Tp & Gp).
      split; [apply Uo; congruence|].
      rewrite To, Tc, Tp, Tm. cbn [fst snd].
      apply GF_cons; [rewrite <- Tm, <- Tp, <- Tc; exact Go|exact Pc|rewrite <- Tm; exact Gp|exact Pm|exact Gm].
    - (* p_enum *)
      intros sc st p st' H Hn. cbn [Parser.p_enum] in H.
      apply bind_inv in H as (path & s1 & E1 & H). apply inv_p_path in E1 as (xp & Tp & Gp & Up).
      apply bind_inv in H as (paren & s2 & E2 & H). apply inv_peek in E2 as [-> ->].
      apply bind_inv in H as (elems & s3 & E3 & H).
      apply bind_inv in H as (id & s4 & E4 & H). apply inv_ret in H as [-> ->]. apply inv_fresh in E4 as [T4 U4].
      destruct (peek_group DParen (toks s1)).
      + apply bind_inv in E3 as (g & s5 & E5 & E3). apply inv_ret in E3 as [-> ->].
        apply inv_in_group in E5 as (sp & spo & spc & inner & stb & res & T5 & -> & Eb & Ub).
        assert (Un3 : unx s5 = None) by congruence.
        destruct (Ub Un3) as [Tb Unb]. destruct (Ielems 0%N _ _ _ _ Eb Unb Tb) as [Un1 Ge]. cbn [toks unx] in Un1, Ge.
        split; [apply Up; congruence|]. exists (xp ++ [TTGroup DParen sp spo spc inner]). rewrite T4.
        split; [rewrite Tp, T5, <- app_assoc; reflexivity|]. cbn [snd].
        apply G_variant_pat; [rewrite T5 in Gp; exact Gp|exact Ge].
      + apply inv_ret in E3 as [-> ->]. split; [apply Up; congruence|]. exists xp. rewrite T4. split; [exact Tp|].
        apply G_unit_pat. exact Gp.
    - (* p_tuple *)
      intros sc st p st' H Hn. cbn [Parser.p_tuple] in H.
      apply bind_inv in H as (g & s1 & E1 & H).
      apply inv_in_group in E1 as (sp & spo & spc & inner & stb & res & T1 & -> & Eb & Ub).
      apply bind_inv in H as (id & s2 & E2 & H). apply inv_ret in H as [-> ->]. apply inv_fresh in E2 as [T2 U2].
      assert (Un1 : unx s1 = None) by congruence.
      destruct (Ub Un1) as [Tb Unb]. destruct (Ielems 0%N _ _ _ _ Eb Unb Tb) as [Un0 Ge]. cbn [toks unx] in Un0, Ge.
      split; [exact Un0|]. exists [TTGroup DParen sp spo spc inner]. rewrite T2. split; [exact T1|].
      apply G_tuple_pat. exact Ge.
    - (* p_elems *)
      intros sc st r st' H Hn Hend. cbn [Parser.p_elems] in H.
      apply bind_inv in H as (e & s1 & E1 & H). apply inv_is_empty in E1 as [-> ->].
      destruct (toks st) as [|t0 r0] eqn:Ht.
      { apply inv_ret in H as [-> ->]. split; [exact Hn|]. apply GE_nil. }
      rewrite <- Ht.
      apply bind_inv in H as (fk & s1 & E1 & H). apply inv_fork in E1 as [T1 U1].
      apply bind_inv in H as (el & s2 & E2 & H).
      apply bind_inv in H as (e2 & s3 & E3 & H). apply inv_is_empty in E3 as [-> ->].
      apply bind_inv in H as (u & s3 & E3 & H).
      apply bind_inv in H as (more & s4 & E4 & H). apply inv_ret in H as [-> ->].
      assert (Hel : unx s2 = None -> unx s1 = None /\ exists pre, toks s1 = pre ++ toks s2 /\ G_elem pos pre (toks s2) el).
      { intros Un2. destruct fk as [[fkp after]|]; [|exact (Iindexed pos _ _ _ _ E2 Un2)].
        destruct (negb (peek_punct ":" after)); [|exact (Iindexed pos _ _ _ _ E2 Un2)].
        apply bind_inv in E2 as (p & s5 & E5 & E2). apply inv_ret in E2 as [-> ->].
        destruct (Ipat _ _ _ _ E5 Un2) as (Un & pre & T & G). split; [exact Un|]. exists pre. split; [exact T|].
        apply GEl_pos. exact G. }
      destruct (toks s2) as [|t2 r2] eqn:Ht2.
      + apply inv_ret in E3 as [_ ->].
        destruct (p_elems_nil _ _ _ _ _ _ Ht2 E4) as [-> ->].
        destruct (Hel Hn) as (Un1 & pre & T & G). rewrite app_nil_r in T.
        split; [congruence|]. rewrite <- T1, T. apply GE_last. exact G.
      + rewrite <- Ht2 in Hel.
        apply bind_inv in E3 as (sps & s5 & E5 & E3). apply inv_ret in E3 as [_ ->].
        apply inv_p_punct in E5 as (xm & Tm & Pm & Um).
        destruct (Ielems (N.succ pos) _ _ _ _ E4 Hn Hend) as [Un3 Gm].
        assert (Un2 : unx s2 = None) by congruence.
        destruct (Hel Un2) as (Un1 & pre & T & G).
        split; [congruence|]. rewrite <- T1, T, Tm.
        apply GE_cons; [rewrite <- Tm; exact G|exact Pm|exact Gm].
    - (* p_indexed *)
      intros sc st el st' H Hn. cbn [Parser.p_indexed] in H.
      apply bind_inv in H as (ops & s1 & E1 & H). apply inv_p_field_operation in E1 as (xo & To & Go & Uo).
      destruct (root_is ops pos) as [[|]|] eqn:Hr; try discriminate.
      apply bind_inv in H as (u & s2 & E2 & H). apply inv_p_punct in E2 as (xc & Tc & Pc & Uc).
      apply bind_inv in H as (p & s3 & E3 & H). apply inv_ret in H as [-> ->].
      destruct (Ipat _ _ _ _ E3 Hn) as (Un2 & xp & Tp & Gp).
      split; [apply Uo; congruence|].
      exists (xo ++ xc ++ xp). split; [rewrite To, Tc, Tp, <- !app_assoc; reflexivity|].
      unfold root_is in Hr. destruct (root_field_name ops) as [[|i isp]|] eqn:Hroot; try discriminate.
      inversion Hr as [Hi]. apply N.eqb_eq in Hi. subst i.
      eapply GEl_idx with (isp := isp); [rewrite <- Tp, <- Tc; exact Go|exact Hroot|exact Pc|exact Gp].
    - (* p_slice *)
      intros sc st p st' H Hn. cbn [Parser.p_slice] in H.
      apply bind_inv in H as (g & s1 & E1 & H).
      apply inv_in_group in E1 as (sp & spo & spc & inner & stb & res & T1 & -> & Eb & Ub).
      apply bind_inv in H as (id & s2 & E2 & H). apply inv_ret in H as [-> ->]. apply inv_fresh in E2 as [T2 U2].
      assert (Un1 : unx s1 = None) by congruence.
      destruct (Ub Un1) as [Tb Unb]. destruct (Ilist _ _ _ _ Eb Unb Tb) as [Un0 Ge]. cbn [toks unx] in Un0, Ge.
      split; [exact Un0|]. exists [TTGroup DBracket sp spo spc inner]. rewrite T2. split; [exact T1|].
      apply G_slice_pat. exact Ge.
    - (* p_list *)
      intros sc st r st' H Hn Hend. cbn [Parser.p_list] in H.
      apply bind_inv in H as (e & s1 & E1 & H). apply inv_is_empty in E1 as [-> ->].
      destruct (toks st) as [|t0 r0] eqn:Ht.
      { apply inv_ret in H as [-> ->]. split; [exact Hn|]. apply GL_nil. }
      rewrite <- Ht.
      apply bind_inv in H as (p & s2 & E2 & H).
      apply bind_inv in H as (e2 & s3 & E3 & H). apply inv_is_empty in E3 as [-> ->].
      apply bind_inv in H as (u & s3 & E3 & H).
      apply bind_inv in H as (more & s4 & E4 & H). apply inv_ret in H as [-> ->].
      destruct (toks s2) as [|t2 r2] eqn:Ht2.
      + apply inv_ret in E3 as [_ ->].
        destruct (p_list_nil _ _ _ _ _ Ht2 E4) as [-> ->].
        destruct (Ipat _ _ _ _ E2 Hn) as (Un1 & pre & T & G). rewrite Ht2 in T, G. rewrite app_nil_r in T.
        split; [exact Un1|]. rewrite T. apply GL_last. exact G.
      + apply bind_inv in E3 as (sps & s5 & E5 & E3). apply inv_ret in E3 as [_ ->].
        apply inv_p_punct in E5 as (xm & Tm & Pm & Um).
        destruct (Ilist _ _ _ _ E4 Hn Hend) as [Un3 Gm].
        assert (Un2 : unx s2 = None) by congruence.
        destruct (Ipat _ _ _ _ E2 Un2) as (Un1 & pre & T & G).
        split; [exact Un1|]. rewrite T, Tm.
        apply GL_cons; [rewrite <- Tm; exact G|exact Pm|exact Gm].
    - (* p_set *)
      intros sc st p st' H Hn. cbn [Parser.p_set] in H.
      apply bind_inv in H as (hash & s0 & E0 & H). apply inv_p_punct in E0 as (xh & Th & Ph & Uh).
      apply bind_inv in H as (g & s1 & E1 & H).
      apply inv_in_group in E1 as (sp & spo & spc & inner & stb & res & T1 & -> & Eb & Ub).
      destruct res as [elems rest].
      apply bind_inv in H as (id & s2 & E2 & H). apply inv_ret in H as [-> ->]. apply inv_fresh in E2 as [T2 U2].
      assert (Un1 : unx s1 = None) by congruence.
      destruct (Ub Un1) as [Tb Unb]. destruct (Isetel _ _ _ _ Eb Unb Tb) as [Un0 Ge]. cbn [toks unx fst snd] in Un0, Ge.
      split; [congruence|]. exists (xh ++ [TTGroup DParen sp spo spc inner]). rewrite T2.
      split; [rewrite Th, T1, <- app_assoc; reflexivity|]. apply G_set_pat; assumption.
    - (* p_set_elems *)
      intros sc st r st' H Hn Hend. cbn [Parser.p_set_elems] in H.
      apply bind_inv in H as (e & s1 & E1 & H). apply inv_is_empty in E1 as [-> ->].
      destruct (toks st) as [|t0 r0] eqn:Ht.
      { apply inv_ret in H as [-> ->]. split; [exact Hn|]. apply GS_nil. }
      rewrite <- Ht.
      apply bind_inv in H as (d & s1 & E1 & H). apply inv_peek in E1 as [-> ->].
      destruct (peek_rest (toks st)) eqn:Hd.
      { apply bind_inv in H as (u & s2 & E2 & H). apply inv_p_punct in E2 as (xd & Td & Pd & Ud).
        apply bind_inv in H as (c & s3 & E3 & H). apply inv_peek in E3 as [-> ->].
        apply bind_inv in H as (u2 & s3 & E3 & H). apply inv_ret in H as [-> ->].
        destruct (peek_punct "," (toks s2)).
        - apply bind_inv in E3 as (sps & s4 & E4 & E3). apply inv_ret in E3 as [_ ->].
          apply inv_p_punct in E4 as (xc & Tc & Pc & Uc).
          split; [congruence|]. rewrite Td, Tc, Hend, app_nil_r. apply GS_rest_comma; assumption.
        - apply inv_ret in E3 as [_ ->]. split; [congruence|]. rewrite Td, Hend, app_nil_r. apply GS_rest. exact Pd. }
      apply bind_inv in H as (p & s2 & E2 & H).
      apply bind_inv in H as (e2 & s3 & E3 & H). apply inv_is_empty in E3 as [-> ->].
      destruct (toks s2) as [|t2 r2] eqn:Ht2.
      { apply inv_ret in H as [-> ->].
        destruct (Ipat _ _ _ _ E2 Hn) as (Un1 & pre & T & G). rewrite Ht2 in T, G. rewrite app_nil_r in T.
        split; [exact Un1|]. rewrite T. cbn [fst snd]. apply GS_last. exact G. }
      apply bind_inv in H as (u2 & s3 & E3 & H). apply inv_p_punct in E3 as (xm & Tm & Pm & Um).
      apply bind_inv in H as (d2 & s4 & E4 & H). apply inv_peek in E4 as [-> ->].
      destruct (peek_rest (toks s3)) eqn:Hd2.
      { apply bind_inv in H as (u3 & s4 & E4 & H). apply inv_ret in H as [-> ->].
        apply inv_p_punct in E4 as (xd & Td & Pd & Ud).
        assert (Un2 : unx s2 = None) by congruence.
        destruct (Ipat _ _ _ _ E2 Un2) as (Un1 & pre & T & G).
        split; [exact Un1|]. rewrite Hend, app_nil_r in Td. rewrite T, Tm, Td. cbn [fst snd].
        apply GS_cons; [rewrite <- Td, <- Tm; exact G|exact Pm|apply GN_rest; exact Pd]. }
      apply bind_inv in H as (more & s4 & E4 & H). apply inv_ret in H as [-> ->].
      destruct (Isetel _ _ _ _ E4 Hn Hend) as [Un3 Gm].
      assert (Un2 : unx s2 = None) by congruence.
      destruct (Ipat _ _ _ _ E2 Un2) as (Un1 & pre & T & G).
      split; [exact Un1|]. rewrite T, Tm. cbn [fst snd].
      apply GS_cons; [rewrite <- Tm; exact G|exact Pm|apply G_set_to_setn; assumption].
    - (* p_map *)
      intros sc st p st' H Hn. cbn [Parser.p_map] in H.
      apply bind_inv in H as (hash & s0 & E0 & H). apply inv_p_punct in E0 as (xh & Th & Ph & Uh).
      apply bind_inv in H as (g & s1 & E1 & H).
      apply inv_in_group in E1 as (sp & spo & spc & inner & stb & res & T1 & -> & Eb & Ub).
      destruct res as [entries rest].
      apply bind_inv in H as (id & s2 & E2 & H). apply inv_ret in H as [-> ->]. apply inv_fresh in E2 as [T2 U2].
      assert (Un1 : unx s1 = None) by congruence.
      destruct (Ub Un1) as [Tb Unb]. destruct (Imapen _ _ _ _ Eb Unb Tb) as [Un0 Ge]. cbn [toks unx fst snd] in Un0, Ge.
      split; [congruence|]. exists (xh ++ [TTGroup DBrace sp spo spc inner]). rewrite T2.
      split; [rewrite Th, T1, <- app_assoc; reflexivity|]. apply G_map_pat; assumption.
    - (* p_map_entries *)
      intros sc st r st' H Hn Hend. cbn [Parser.p_map_entries] in H.
      apply bind_inv in H as (e & s1 & E1 & H). apply inv_is_empty in E1 as [-> ->].
      destruct (toks st) as [|t0 r0] eqn:Ht.
      { apply inv_ret in H as [-> ->]. split; [exact Hn|]. apply GM_nil. }
      rewrite <- Ht.
      apply bind_inv in H as (d & s1 & E1 & H). apply inv_peek in E1 as [-> ->].
      destruct (peek_punct ".." (toks st)) eqn:Hd.
      { apply bind_inv in H as (u & s2 & E2 & H). apply inv_ret in H as [-> ->].
        apply inv_p_punct in E2 as (x & T & P & U). split; [congruence|].
        rewrite T, Hend, app_nil_r. apply GM_rest. exact P. }
      apply bind_inv in H as (k & s2 & E2 & H). apply inv_p_expr in E2 as (xk & Tk & Gk & Uk).
      apply bind_inv in H as (u & s3 & E3 & H). apply inv_p_punct in E3 as (xc & Tc & Pc & Uc).
      apply bind_inv in H as (p & s4 & E4 & H).
      apply bind_inv in H as (e2 & s5 & E5 & H). apply inv_is_empty in E5 as [-> ->].
      destruct (toks s4) as [|t4 r4] eqn:Ht4.
      { apply inv_ret in H as [-> ->].
        destruct (Ipat _ _ _ _ E4 Hn) as (Un3 & xp & Tp & Gp). rewrite Ht4 in Tp, Gp. rewrite app_nil_r in Tp.
        split; [apply Uk; congruence|].
        rewrite Tk, Tc, Tp. cbn [fst snd]. apply GM_last; [rewrite <- Tp, <- Tc; exact Gk|exact Pc|exact Gp]. }
      apply bind_inv in H as (u2 & s5 & E5 & H). apply inv_p_punct in E5 as (xm & Tm & Pm & Um).
      apply bind_inv in H as (d2 & s6 & E6 & H). apply inv_peek in E6 as [-> ->].
      destruct (peek_punct ".." (toks s5)) eqn:Hd2.
      { apply bind_inv in H as (u3 & s6 & E6 & H). apply inv_ret in H as [-> ->].
        apply inv_p_punct in E6 as (xd & Td & Pd & Ud).
        assert (Un4 : unx s4 = None) by congruence.
        destruct (Ipat _ _ _ _ E4 Un4) as (Un3 & xp & Tp & Gp).
        split; [apply Uk; congruence|].
        rewrite Hend, app_nil_r in Td.
        rewrite Tk, Tc, Tp, Tm, Td. cbn [fst snd].
        apply GM_cons; [rewrite <- Td, <- Tm, <- Tp, <- Tc; exact Gk|exact Pc|rewrite <- Td, <- Tm; exact Gp|exact Pm|apply GM_rest; exact Pd]. }
      apply bind_inv in H as (more & s6 & E6 & H). apply inv_ret in H as [-> ->].
      destruct (Imapen _ _ _ _ E6 Hn Hend) as [Un5 Gm].
      assert (Un4 : unx s4 = None) by congruence.
      destruct (Ipat _ _ _ _ E4 Un4) as (Un3 & xp & Tp & Gp).
      split; [apply Uk; congruence|].
      rewrite Tk, Tc, Tp, Tm. cbn [fst snd].
      apply GM_cons; [rewrite <- Tm, <- Tp, <- Tc; exact Gk|exact Pc|rewrite <- Tm; exact Gp|exact Pm|exact Gm].
  Qed.

  Notation parse_top_from := (parse_top_from regex join_ok parse_expr parse_path parse_closure).
  Notation G_top := (G_top regex parse_expr parse_path parse_closure).

  (* Soundness: every accepted invocation derives in the grammar *)
  Theorem parse_top_sound fuel start ts v p : parse_top_from fuel start ts = TOk v p -> G_top ts v p.
  Proof.
    intros H. apply top_rejects in H as (st' & H & Hn & Hend).
    apply bind_inv in H as (r & s1 & E1 & H). apply inv_p_expr in E1 as (xv & Tv & Gv & Uv).
    apply bind_inv in H as (u & s2 & E2 & H). apply inv_p_punct in E2 as (xc & Tc & Pc & Uc).
    apply bind_inv in H as (q & s3 & E3 & H). apply inv_ret in H as [Hq ->]. inversion Hq; subst v p.
    destruct (proj1 (all_snd_holds fuel) _ _ _ _ E3 Hn) as (Un2 & xp & Tp & Gp).
    rewrite Hend in Tp, Gp. rewrite app_nil_r in Tp.
    cbn [toks] in Tv. exists xv, xc, xp, r. repeat split; try assumption.
    - rewrite Tv, Tc, Tp. reflexivity.
    - rewrite <- Tp, <- Tc. apply Gv.
    - rewrite <- Tp, <- Tc. apply Gv.
    - rewrite <- Tp, <- Tc. apply Gv.
    - apply Pc.
    - apply Pc.
  Qed.

  (* What the grammar says about `..`: in a struct, map or set pattern that has it, it is the last token
     of the group (in a set pattern, one comma may follow when `..` is also the first token) *)
  Lemma G_fields_rest_last body fields : G_fields body fields true -> exists pre dd, body = pre ++ dd /\ is_punct ".." dd.
  Proof.
    intros H. remember true as r eqn:Hr. induction H; try discriminate.
    - exists [], dd. split; [reflexivity|assumption].
    - destruct (IHG_fields Hr) as (pre & dd & E & P). exists (otoks ++ colon ++ ptoks ++ comma ++ pre), dd.
      split; [rewrite E, <- !app_assoc; reflexivity|exact P].
  Qed.

  Lemma G_map_rest_last body entries : G_map body entries true -> exists pre dd, body = pre ++ dd /\ is_punct ".." dd.
  Proof.
    intros H. remember true as r eqn:Hr. induction H; try discriminate.
    - exists [], dd. split; [reflexivity|assumption].
    - destruct (IHG_map Hr) as (pre & dd & E & P). exists (ktoks ++ colon ++ ptoks ++ comma ++ pre), dd.
      split; [rewrite E, <- !app_assoc; reflexivity|exact P].
  Qed.

  Lemma G_setn_rest_last body elems : G_setn body elems true -> exists pre dd, body = pre ++ dd /\ is_punct ".." dd.
  Proof.
    intros H. remember true as r eqn:Hr. induction H; try discriminate.
    - exists [], dd. split; [reflexivity|assumption].
    - destruct (IHG_setn Hr) as (pre & dd & E & P). exists (ptoks ++ comma ++ pre), dd.
      split; [rewrite E, <- !app_assoc; reflexivity|exact P].
  Qed.

  Lemma G_set_rest_last body elems :
    G_set body elems true ->
    (exists pre dd, body = pre ++ dd /\ is_punct ".." dd) \/
    (exists dd comma, body = dd ++ comma /\ is_punct ".." dd /\ is_punct "," comma /\ elems = []).
  Proof.
    intros H. inversion H; subst.
    - left. exists [], body. split; [reflexivity|assumption].
    - right. eauto 8.
    - left. match goal with Hn : G_setn _ _ true |- _ => destruct (G_setn_rest_last _ _ Hn) as (pre & dd & E & P) end.
      exists (ptoks ++ comma ++ pre), dd. split; [rewrite E, <- !app_assoc; reflexivity|exact P].
  Qed.

  (* the pattern derivation accounts for every token: the tokens of a derived pattern are exactly `pre` *)
  Lemma G_top_covers ts v p : G_top ts v p -> exists vtoks comma ptoks, ts = vtoks ++ comma ++ ptoks /\ G_pat ptoks [] p.
  Proof. intros (vt & c & pt & r & E & _ & _ & _ & G). eauto. Qed.
End GrammarP.
