(* Corollaries of the master lemma (SemP.exec_expand_frontier) and direct facts about
   the specification (Spec.frontier): properties C01, C02, C03, C05, C11 (verdict half). *)
From ASModel Require Import Base Tokens Report Ast IR Expand SetMatch Values Nodes Sem Spec.
From ASProofs Require Import PatInd SetMatchP SemP.
From Coq Require Import Permutation.

Definition report_of (o : outcome) : option (list entry) := option_map fst o.

Section Cor.
  Variable j : bool.

  (* C03: the report is exactly the failure frontier, in pattern order *)
  Theorem report_is_frontier : forall p e en v t fr,
    pat_ok (e_units en) p = true ->
    eval en e = Some (v, t) ->
    frontier (e_caller en) (e_units en) p v = Some fr ->
    report_of (exec (expand j p e) en) = Some fr.
  Proof.
    intros p e en v t fr Hok He Hf.
    destruct (exec_expand_frontier j p e en v t fr Hok He Hf) as (tr & H). rewrite H. reflexivity.
  Qed.

  (* C01: a passing assertion implies the value satisfies the pattern *)
  Theorem pass_implies_sat : forall p e en v t fr,
    pat_ok (e_units en) p = true ->
    eval en e = Some (v, t) ->
    frontier (e_caller en) (e_units en) p v = Some fr ->          (* the triple is well-typed *)
    report_of (exec (expand j p e) en) = Some [] ->
    sat (e_caller en) (e_units en) p v.
  Proof.
    intros p e en v t fr Hok He Hf Hr. rewrite (report_is_frontier p e en v t fr Hok He Hf) in Hr.
    inversion Hr; subst. exact Hf.
  Qed.

  (* C02: a matching value never fails *)
  Theorem sat_implies_pass : forall p e en v t,
    pat_ok (e_units en) p = true ->
    eval en e = Some (v, t) ->
    sat (e_caller en) (e_units en) p v ->
    report_of (exec (expand j p e) en) = Some [].
  Proof. intros p e en v t Hok He Hs. eapply report_is_frontier; eassumption. Qed.

  (* C11, verdict half: the report depends on the value the expression yields, not on the
     expression or the bindings around it — the same pattern on the same value gives the
     same report in every position *)
  Theorem verdict_position_independent : forall p e1 e2 en1 en2 v t1 t2 fr,
    e_caller en1 = e_caller en2 -> e_units en1 = e_units en2 ->
    pat_ok (e_units en1) p = true ->
    eval en1 e1 = Some (v, t1) -> eval en2 e2 = Some (v, t2) ->
    frontier (e_caller en1) (e_units en1) p v = Some fr ->
    report_of (exec (expand j p e1) en1) = report_of (exec (expand j p e2) en2).
  Proof.
    intros p e1 e2 en1 en2 v t1 t2 fr Hc Hu Hok H1 H2 Hf.
    rewrite (report_is_frontier p e1 en1 v t1 fr Hok H1 Hf).
    rewrite Hc, Hu in Hf. rewrite Hu in Hok.
    rewrite (report_is_frontier p e2 en2 v t2 fr Hok H2 Hf). reflexivity.
  Qed.

  (* ... and a reference layer in between changes nothing either *)
  Theorem verdict_through_reference : forall p e1 e2 en v t1 t2 fr,
    pat_ok (e_units en) p = true ->
    eval en e1 = Some (v, t1) -> eval en e2 = Some (VRefV v, t2) ->
    frontier (e_caller en) (e_units en) p v = Some fr ->
    report_of (exec (expand j p e1) en) = report_of (exec (expand j p e2) en).
  Proof.
    intros p e1 e2 en v t1 t2 fr Hok H1 H2 Hf.
    rewrite (report_is_frontier p e1 en v t1 fr Hok H1 Hf).
    rewrite (report_is_frontier p e2 en (VRefV v) t2 fr Hok H2); [reflexivity|]. rewrite frontier_ref. exact Hf.
  Qed.
End Cor.

(* ---- facts about the specification itself -------------------------------------- *)

Section SpecFacts.
  Variable c : list (string * value).
  Variable u : list string.

  (* C02: wildcards and bare `..` forms place no constraint at all *)
  Theorem wild_unconstrained : forall id v, frontier c u (PWild id) v = Some [].
  Proof. reflexivity. Qed.

  Theorem wild_struct_rest_unconstrained : forall id v, frontier c u (PStruct id None true []) v = Some [].
  Proof. reflexivity. Qed.

  Theorem set_rest_unconstrained : forall id sp v vs,
    elements_of v = Some vs -> frontier c u (PSet id sp true []) v = Some [].
  Proof. intros id sp v vs H. cbn [frontier]. rewrite H. reflexivity. Qed.

  Theorem map_rest_unconstrained : forall id sp v kvs,
    auto_deref v = VMapV kvs -> frontier c u (PMap id sp true []) v = Some [].
  Proof. intros id sp v kvs H. cbn [frontier]. rewrite H. reflexivity. Qed.

  Definition rest_marker (id : N) (e : uexpr) (lim : span) (incl : bool) : pat :=
    PRange id e (Some (None, lim, incl, None)).

  Theorem slice_rest_unconstrained : forall id sp rid e lim incl v vs,
    elements_of v = Some vs -> frontier c u (PSlice id sp [rest_marker rid e lim incl]) v = Some [].
  Proof.
    intros id sp rid e lim incl v vs H. rewrite frontier_slice, H. cbn.
    rewrite Nat.sub_0_r, skipn_all. reflexivity.
  Qed.

  (* C02: fields omitted under `..` place no constraint: two struct values that agree on
     the listed root fields have the same frontier *)
  Theorem struct_rest_ignores_other_fields : forall id path fields n vals vals',
    path_last path = Some n ->                      (* the value is of the named struct / variant *)
    (forall fp f, In fp fields -> root_field_name (fst fp) = Some f ->
                  assoc (field_name_str f) vals = assoc (field_name_str f) vals') ->
    frontier c u (PStruct id (Some path) true fields) (VStructV n vals) =
    frontier c u (PStruct id (Some path) true fields) (VStructV n vals').
  Proof.
    intros id path fields n vals vals' Hp H. cbn [frontier peel orb].
    rewrite Hp, String.eqb_refl.
    f_equal. apply map_ext_in. intros fp Hin.
    destruct (root_field_name (fst fp)) as [f|] eqn:E; [|reflexivity].
    rewrite (H fp f Hin E). reflexivity.
  Qed.

  (* C02: listing fields in another order permutes the report and keeps the verdict *)
  Lemma concat_opt_perm {A} : forall (l l' : list (option (list A))),
    Permutation l l' -> forall r, concat_opt l = Some r ->
    exists r', concat_opt l' = Some r' /\ Permutation r r'.
  Proof.
    intros l l' Hp; induction Hp as [|x l l' Hp IH|x y l|l l' l'' Hp1 IH1 Hp2 IH2]; intros r H.
    - exists r; split; [exact H|apply Permutation_refl].
    - cbn in *. destruct x as [a|]; [|discriminate]. destruct (concat_opt l) as [t|] eqn:E; [|discriminate].
      inversion H; subst. destruct (IH t eq_refl) as (t' & E' & Pt). rewrite E'.
      exists (a ++ t'); split; [reflexivity|apply Permutation_app_head; exact Pt].
    - cbn in *. destruct y as [b|]; [|discriminate]. destruct x as [a|]; [|discriminate].
      destruct (concat_opt l) as [t|]; [|discriminate]. inversion H; subst.
      exists (a ++ b ++ t); split; [reflexivity|]. rewrite !app_assoc. apply Permutation_app_tail. apply Permutation_app_comm.
    - destruct (IH1 r H) as (r1 & E1 & P1). destruct (IH2 r1 E1) as (r2 & E2 & P2).
      exists r2; split; [exact E2|eapply Permutation_trans; eassumption].
  Qed.

  Lemma existsb_perm {A} (f : A -> bool) l l' : Permutation l l' -> existsb f l = existsb f l'.
  Proof.
    intros Hp; induction Hp as [|x l l' Hp IH|x y l|l l' l'' Hp1 IH1 Hp2 IH2]; cbn; try congruence.
    destruct (f x), (f y); reflexivity.
  Qed.

  Theorem struct_field_order : forall id path rest fields fields' v r,
    Permutation fields fields' ->
    frontier c u (PStruct id (Some path) rest fields) v = Some r ->
    exists r', frontier c u (PStruct id (Some path) rest fields') v = Some r' /\ Permutation r r'.
  Proof.
    intros id path rest fields fields' v r Hp H. cbn [frontier] in *.
    destruct (path_last path) as [nm|]; [|discriminate].
    destruct (peel v) as [| | | | | | | |n vals|n args| | |]; try discriminate;
      try (exists r; split; [exact H|apply Permutation_refl]).
    destruct (String.eqb n nm); [|exists r; split; [exact H|apply Permutation_refl]].
    replace (forallb _ vals) with
      (forallb (fun fv => existsb (fun fp => match root_field_name (fst fp) with
                                             | Some f => String.eqb (field_name_str f) (fst fv)
                                             | None => false end) fields) vals).
    2:{ apply forallb_ext'. intros fv. apply existsb_perm. exact Hp. }
    destruct (rest || _); [|discriminate].
    eapply concat_opt_perm; [|exact H]. apply Permutation_map. exact Hp.
  Qed.

  Lemma concat_opt_nil_all {A} : forall (l : list (option (list A))),
    concat_opt l = Some [] <-> forall x, In x l -> x = Some [].
  Proof.
    induction l as [|a l IH]; cbn.
    - split; [intros _ x []|reflexivity].
    - split.
      + intros H x Hx. destruct a as [a|]; [|discriminate]. destruct (concat_opt l) as [t|] eqn:E; [|discriminate].
        inversion H as [H0]. apply app_eq_nil in H0 as [-> ->].
        destruct Hx as [<-|Hx]; [reflexivity|]. apply (proj1 IH eq_refl). exact Hx.
      + intros H. rewrite (H a (or_introl eq_refl)). rewrite (proj2 IH); [reflexivity|].
        intros x Hx. apply H. right; exact Hx.
  Qed.

  (* C02: repeating a field assertion does not change the verdict *)
  Theorem struct_repeat_field : forall id path rest fields fp v,
    In fp fields ->
    (frontier c u (PStruct id (Some path) rest fields) v = Some [] <->
     frontier c u (PStruct id (Some path) rest (fields ++ [fp])) v = Some []).
  Proof.
    intros id path rest fields fp v Hin. cbn [frontier].
    destruct (path_last path) as [nm|]; [|reflexivity].
    destruct (peel v) as [| | | | | | | |n vals|n args| | |]; try reflexivity.
    destruct (String.eqb n nm); [|reflexivity].
    replace (forallb (fun fv => existsb _ (fields ++ [fp])) vals) with
      (forallb (fun fv => existsb (fun fp => match root_field_name (fst fp) with
                                             | Some f => String.eqb (field_name_str f) (fst fv)
                                             | None => false end) fields) vals).
    2:{ apply forallb_ext'. intros fv. rewrite existsb_app. cbn [existsb]. rewrite orb_false_r.
        match goal with |- ?a = ?a || ?b => destruct b eqn:Eb; [|rewrite orb_false_r; reflexivity] end.
        rewrite orb_true_r. apply existsb_exists. exists fp. split; [exact Hin|exact Eb]. }
    destruct (rest || _); [|reflexivity].
    rewrite map_app. cbn [map]. rewrite !concat_opt_nil_all. split; intros H x Hx.
    - apply in_app_or in Hx as [Hx|[<-|[]]]; [apply H; exact Hx|]. apply H. apply in_map_iff. exists fp. split; [reflexivity|exact Hin].
    - apply H. apply in_or_app. left; exact Hx.
  Qed.

  (* C03: the frontier of a matching named struct is the concatenation of its fields'
     frontiers, in written order: no sibling hides another, and nothing is added *)
  Theorem struct_frontier_is_concat : forall id path rest fields v nm n vals,
    path_last path = Some nm -> peel v = VStructV n vals -> String.eqb n nm = true ->
    (rest || forallb (fun fv => existsb (fun fp => match root_field_name (fst fp) with
                                                   | Some f => String.eqb (field_name_str f) (fst fv)
                                                   | None => false end) fields) vals) = true ->
    frontier c u (PStruct id (Some path) rest fields) v =
    concat_opt (map (spec_field c u vals) fields).
  Proof.
    intros id path rest fields v nm n vals Hp Hv Hn Hex. cbn [frontier]. rewrite Hp, Hv, Hn, Hex. reflexivity.
  Qed.

  (* C03: a composite whose own shape fails contributes exactly one entry, its own, and
     nothing below it *)
  Theorem variant_mismatch_single_entry : forall id path el elems v nm n args,
    path_last path = Some nm -> peel v = VVariantV n args -> String.eqb n nm = false ->
    frontier c u (PEnum id path (el :: elems)) v = Some [mk_entry id (TDebug (peel v)) None].
  Proof.
    intros id path el elems v nm n args Hp Hv Hn. rewrite frontier_enum, Hp, Hv, Hn. rewrite <- Hv. reflexivity.
  Qed.

  Theorem struct_mismatch_single_entry : forall id path rest fields v nm n vals,
    path_last path = Some nm -> peel v = VStructV n vals -> String.eqb n nm = false ->
    frontier c u (PStruct id (Some path) rest fields) v = Some [mk_entry id (TDebug (peel v)) None].
  Proof. intros id path rest fields v nm n vals Hp Hv Hn. cbn [frontier]. rewrite Hp, Hv, Hn. reflexivity. Qed.

  (* C05: a leaf entry shows the value that was tested *)
  Theorem leaf_shows_tested_value : forall id ok v x e,
    leaf id ok v x = Some [e] -> en_node e = id /\ en_actual e = TDebug (peel v) /\ en_expected e = x.
  Proof.
    intros id ok v x e H. unfold leaf in H. destruct ok as [[|]|]; inversion H; subst. repeat split.
  Qed.

  (* C01: no constraining leaf is vacuous — for every operator and operand there is a value
     of its type that fails it *)
  Definition cmp_witness (op : cmp_op) (k : Z) : Z :=
    match op with
    | OpLt | OpGt | OpNe => k
    | OpLe | OpEq => (k + 1)%Z
    | OpGe => (k - 1)%Z
    end.

  Theorem cmp_refutable : forall id op osp x k,
    ueval c x = Some (VInt k) ->
    exists en, frontier c u (PCmp id op osp x) (VInt (cmp_witness op k)) = Some [en].
  Proof.
    intros id op osp x k H. cbn [frontier]. rewrite H. unfold leaf, cmp_holds. cbn [peel].
    destruct op; cbn [cmp_witness];
      [rewrite Z.ltb_irrefl|replace (k + 1 <=? k)%Z with false by (symmetry; apply Z.leb_gt; lia)
       |rewrite Z.ltb_irrefl|replace (k <=? k - 1)%Z with false by (symmetry; apply Z.leb_gt; lia)
       |replace (k + 1 =? k)%Z with false by (symmetry; apply Z.eqb_neq; lia)|rewrite Z.eqb_refl; cbn [negb]];
      eexists; reflexivity.
  Qed.

  (* C01 on a partial order: a value incomparable with the operand (an f64 NaN) satisfies `!=` and nothing else —
     in particular neither `>=` nor `<=`, which are not the complements of `<` and `>` *)
  Theorem cmp_incomparable : forall id op osp x k,
    ueval c x = Some (VFloat (Some k)) ->
    (op <> OpNe -> exists en, frontier c u (PCmp id op osp x) (VFloat None) = Some [en]) /\
    (op = OpNe -> frontier c u (PCmp id op osp x) (VFloat None) = Some []).
  Proof.
    intros id op osp x k H. cbn [frontier]. rewrite H. unfold leaf, cmp_holds. cbn [peel].
    split; intros Hop; destruct op; try congruence; try (eexists; reflexivity); reflexivity.
  Qed.
End SpecFacts.

(* Each field assertion of a wildcard struct pattern reads the field from the pattern's OWN value expression, whatever the other
   fields (written before or after it) are: what they call, bind or evaluate cannot change where this one looks. *)
Theorem wildcard_struct_field_reads_its_own_value : forall j id rest fields e i ops fpat fname,
  nth_error fields i = Some (ops, fpat) -> root_field_name ops = Some fname -> field_name_index_ok fname = true ->
  exists body, expand j (PStruct id None rest fields) e = SSeq body /\
               nth_error body i = Some (with_tail ops (VField e fname) (VRef (VField e fname)) (expand j fpat)).
Proof.
  intros j id rest fields e i ops fpat fname Hn Hr Hi. eexists. split; [reflexivity|].
  rewrite nth_error_map, Hn. cbn [option_map]. rewrite Hr, Hi. reflexivity.
Qed.
