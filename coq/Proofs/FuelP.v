(* FuelP.v — termination of the parser (C13): with fuel 4 * size + 4 the parser never runs out
   of fuel, for every token list, PROVIDED syn's own parsers take at least one token when they
   succeed (and no more than there are) — the one hypothesis on the oracles, checked on every
   table entry of every correspondence run.

   Two inductions over the fuel:
     1. consumption: every parser function leaves at most the tokens it was given (mono), and
        the functions that parse one pattern / one field operation / one expression leave strictly
        fewer (strict);
     2. no function returns PFuel when its fuel exceeds a linear bound in the size of the tokens
        it is given. *)
From Coq Require Import Lia.
From ASModel Require Import Base Tokens Report Ast IR Expand Parser FrontEnd.
From ASProofs Require Import PatInd ParserP RejectP.

(* ---- sizes ------------------------------------------------------------------------- *)

Lemma tsize_group d a b c body : tsize (TTGroup d a b c body) = S (tsizes body).
Proof.
  cbn [tsize]. f_equal.
Qed.

Lemma tsize_pos t : 1 <= tsize t.
Proof. destruct t; cbn; lia. Qed.

Lemma tsizes_skipn n : forall l, tsizes (skipn n l) <= tsizes l.
Proof.
  induction n as [|n IH]; intros l; [cbn; lia|]. destruct l as [|t r]; cbn [skipn tsizes]; [lia|].
  specialize (IH r). lia.
Qed.

Lemma tsizes_skipn_strict n l : 1 <= n -> l <> [] -> tsizes (skipn n l) + 1 <= tsizes l.
Proof.
  intros Hn Hl. destruct l as [|t r]; [contradiction|]. destruct n as [|n]; [lia|].
  cbn [skipn tsizes]. pose proof (tsizes_skipn n r). pose proof (tsize_pos t). lia.
Qed.

Definition mu (st : pst) : nat := tsizes (toks st).

(* ---- consumption ---------------------------------------------------------------------- *)

Definition mono {A} (m : M A) : Prop :=
  forall sc st a st', m sc st = POk a st' -> mu st' <= mu st.
Definition strict {A} (m : M A) : Prop :=
  forall sc st a st', m sc st = POk a st' -> mu st' + 1 <= mu st.

Lemma strict_mono {A} (m : M A) : strict m -> mono m.
Proof. intros H sc st a st' E. specialize (H sc st a st' E). lia. Qed.

Lemma bind_inv {A B} (m : M A) (k : A -> M B) sc st b st'' :
  bind m k sc st = POk b st'' -> exists a st', m sc st = POk a st' /\ k a sc st' = POk b st''.
Proof. unfold bind. destruct (m sc st) as [a st'| | |]; try discriminate. intros H. exists a, st'. split; [reflexivity|exact H]. Qed.

Lemma mono_ret {A} (a : A) : mono (ret a).
Proof. intros sc st x st' E. inversion E; subst. lia. Qed.
Lemma mono_bind {A B} (m : M A) (k : A -> M B) : mono m -> (forall a, mono (k a)) -> mono (bind m k).
Proof.
  intros Hm Hk sc st b st'' E. apply bind_inv in E as (a & st' & E1 & E2).
  specialize (Hm _ _ _ _ E1). specialize (Hk a _ _ _ _ E2). lia.
Qed.
Lemma strict_bind_l {A B} (m : M A) (k : A -> M B) : strict m -> (forall a, mono (k a)) -> strict (bind m k).
Proof.
  intros Hm Hk sc st b st'' E. apply bind_inv in E as (a & st' & E1 & E2).
  specialize (Hm _ _ _ _ E1). specialize (Hk a _ _ _ _ E2). lia.
Qed.
Lemma strict_bind_r {A B} (m : M A) (k : A -> M B) : mono m -> (forall a, strict (k a)) -> strict (bind m k).
Proof.
  intros Hm Hk sc st b st'' E. apply bind_inv in E as (a & st' & E1 & E2).
  specialize (Hm _ _ _ _ E1). specialize (Hk a _ _ _ _ E2). lia.
Qed.

Lemma mono_fail {A} : mono (@fail A).            Proof. intros sc st a st' E; discriminate. Qed.
Lemma mono_fail_at {A} sp : mono (@fail_at A sp). Proof. intros sc st a st' E; discriminate. Qed.
Lemma mono_panic {A} s : mono (@panic A s).      Proof. intros sc st a st' E; discriminate. Qed.
Lemma mono_fuel {A} : mono (@out_of_fuel A).     Proof. intros sc st a st' E; discriminate. Qed.
Lemma strict_fail {A} : strict (@fail A).            Proof. intros sc st a st' E; discriminate. Qed.
Lemma strict_fail_at {A} sp : strict (@fail_at A sp). Proof. intros sc st a st' E; discriminate. Qed.
Lemma strict_panic {A} s : strict (@panic A s).      Proof. intros sc st a st' E; discriminate. Qed.
Lemma strict_fuel {A} : strict (@out_of_fuel A).     Proof. intros sc st a st' E; discriminate. Qed.
Lemma mono_cur_span : mono cur_span.  Proof. intros sc st a st' E; inversion E; subst; lia. Qed.
Lemma mono_get_toks : mono get_toks.  Proof. intros sc st a st' E; inversion E; subst; lia. Qed.
Lemma mono_fresh : mono fresh.        Proof. intros sc st a st' E; inversion E; subst; unfold mu; cbn; lia. Qed.
Lemma mono_is_empty : mono is_empty.  Proof. intros sc st a st' E; inversion E; subst; lia. Qed.
Lemma mono_peek f : mono (peek f).    Proof. intros sc st a st' E; inversion E; subst; lia. Qed.
Lemma mono_advance n : mono (advance n).
Proof. intros sc st a st' E; inversion E; subst. unfold mu; cbn. apply tsizes_skipn. Qed.

Lemma peek_punct_nonempty s ts : peek_punct s ts = true -> ts <> [] /\ 1 <= String.length s.
Proof.
  destruct s as [|c s']; [discriminate|]. cbn [String.length]. intros H. split; [|lia].
  destruct ts; [destruct s'; discriminate|discriminate].
Qed.

Lemma strict_p_punct s : strict (p_punct s).
Proof.
  intros sc st a st' E. unfold p_punct, bind, get_toks in E.
  destruct (peek_punct s (toks st)) eqn:Hp; [|discriminate].
  apply peek_punct_nonempty in Hp as [Hne Hl].
  cbn in E. inversion E; subst. unfold mu; cbn. apply tsizes_skipn_strict; assumption.
Qed.

Lemma strict_in_group {A} d (body : M A) : strict (in_group d body).
Proof.
  intros sc st a st' E. unfold in_group in E.
  destruct (toks st) as [|t r] eqn:Ht; [discriminate|]. destruct t as [| | |d' sp spo spc inner]; try discriminate.
  destruct (delim_eqb d d'); [|discriminate].
  match type of E with context [body ?x ?y] => destruct (body x y) as [b stb| | |] end; try discriminate.
  inversion E; subst. unfold mu. cbn [toks]. rewrite Ht. cbn [tsizes]. rewrite tsize_group. lia.
Qed.

Lemma mono_fork {A} (m : M A) : mono (fork m).
Proof.
  intros sc st a st' E. unfold fork in E.
  match type of E with context [m ?x ?y] => destruct (m x y) end; try discriminate; inversion E; subst; unfold mu; cbn; lia.
Qed.

Global Hint Resolve mono_ret mono_fail mono_fail_at mono_panic mono_fuel mono_cur_span mono_get_toks mono_fresh
     mono_is_empty mono_peek mono_advance mono_fork strict_fail strict_fail_at strict_panic strict_fuel : cons.

Ltac mono_go :=
  repeat first
    [ solve [eauto with cons]
    | solve [apply strict_mono; eauto with cons]
    | apply mono_bind; [|intros ?]
    | match goal with
      | |- mono (if ?b then _ else _) => destruct b
      | |- mono (match ?x with _ => _ end) => destruct x
      | |- mono (let _ := _ in _) => cbv zeta
      end ].

Section FuelP.
  Variable regex join_ok : bool.
  Variable parse_expr : list ttree -> ores expr_ok.
  Variable parse_path : list ttree -> ores path_ok.
  Variable parse_closure : list ttree -> ores closure_ok.
  (* the hypothesis on syn's parsers *)
  Hypothesis Hexpr : forall ts r, parse_expr ts = OOk r -> 1 <= eo_n r <= List.length ts.
  Hypothesis Hpath : forall ts r, parse_path ts = OOk r -> 1 <= po_n r <= List.length ts.
  Hypothesis Hclosure : forall ts r, parse_closure ts = OOk r -> 1 <= co_n r <= List.length ts.

  Notation p_expr := (p_expr parse_expr).
  Notation p_path := (p_path parse_path).
  Notation p_closure := (p_closure parse_closure).
  Notation p_pattern := (p_pattern regex join_ok parse_expr parse_path parse_closure).
  Notation p_struct := (p_struct regex join_ok parse_expr parse_path parse_closure).
  Notation p_fields := (p_fields regex join_ok parse_expr parse_path parse_closure).
  Notation p_enum := (p_enum regex join_ok parse_expr parse_path parse_closure).
  Notation p_tuple := (p_tuple regex join_ok parse_expr parse_path parse_closure).
  Notation p_elems := (p_elems regex join_ok parse_expr parse_path parse_closure).
  Notation p_indexed := (p_indexed regex join_ok parse_expr parse_path parse_closure).
  Notation p_slice := (p_slice regex join_ok parse_expr parse_path parse_closure).
  Notation p_list := (p_list regex join_ok parse_expr parse_path parse_closure).
  Notation p_set := (p_set regex join_ok parse_expr parse_path parse_closure).
  Notation p_set_elems := (p_set_elems regex join_ok parse_expr parse_path parse_closure).
  Notation p_map := (p_map regex join_ok parse_expr parse_path parse_closure).
  Notation p_map_entries := (p_map_entries regex join_ok parse_expr parse_path parse_closure).

  Lemma nonempty_of_len {A} (l : list A) n : 1 <= n <= List.length l -> l <> [].
  Proof. destruct l; cbn; [lia|discriminate]. Qed.

  Lemma strict_p_expr : strict p_expr.
  Proof.
    intros sc st a st' E. unfold Parser.p_expr in E. destruct (parse_expr (toks st)) as [r|] eqn:Hr; [|discriminate].
    inversion E; subst. unfold mu; cbn. pose proof (Hexpr _ _ Hr) as H.
    apply tsizes_skipn_strict; [lia|eapply nonempty_of_len; exact H].
  Qed.
  Lemma strict_p_path : strict p_path.
  Proof.
    intros sc st a st' E. unfold Parser.p_path in E. destruct (parse_path (toks st)) as [r|] eqn:Hr; [|discriminate].
    inversion E; subst. unfold mu; cbn. pose proof (Hpath _ _ Hr) as H.
    apply tsizes_skipn_strict; [lia|eapply nonempty_of_len; exact H].
  Qed.
  Lemma strict_p_closure : strict p_closure.
  Proof.
    intros sc st a st' E. unfold Parser.p_closure in E. destruct (parse_closure (toks st)) as [r|] eqn:Hr; [|discriminate].
    inversion E; subst. unfold mu; cbn. pose proof (Hclosure _ _ Hr) as H.
    apply tsizes_skipn_strict; [lia|eapply nonempty_of_len; exact H].
  Qed.
  Hint Resolve strict_p_expr strict_p_path strict_p_closure strict_p_punct strict_in_group : cons.

  Lemma mono_p_args f : mono (p_args parse_expr f).
  Proof. induction f as [|f IH]; cbn [p_args]; mono_go. Qed.
  Hint Resolve mono_p_args : cons.

  Lemma strict_p_field_name : strict p_field_name.
  Proof.
    intros sc st a st' E. unfold p_field_name in E.
    destruct (toks st) as [|t r] eqn:Ht; [discriminate|]. destruct t as [s sp| |k ? ?|]; try discriminate.
    - destruct (is_keyword s); [discriminate|]. inversion E; subst. unfold mu; cbn [toks]. rewrite Ht. cbn. lia.
    - destruct k as [|[n|]| |]; try discriminate. destruct (index_fits n); [|discriminate].
      inversion E; subst. unfold mu; cbn [toks]. rewrite Ht. cbn. lia.
  Qed.
  Hint Resolve strict_p_field_name : cons.

  Lemma strict_p_dot_op f : strict (p_dot_op parse_expr f).
  Proof.
    unfold p_dot_op. apply strict_bind_r; [mono_go|]. intros dot.
    apply strict_bind_l; [apply strict_p_punct|]. intros _. mono_go.
  Qed.
  Hint Resolve strict_p_dot_op : cons.

  Lemma strict_p_one_op f : strict (p_one_op parse_expr f).
  Proof.
    unfold p_one_op. apply strict_bind_r; [mono_go|]. intros ts.
    destruct (peek_punct "." ts); [apply strict_p_dot_op|].
    destruct (peek_group DBracket ts); [|apply strict_fail].
    apply strict_bind_l; [apply strict_in_group|]. intros g. destruct g as [[[? ?] ?] ?]. apply mono_ret.
  Qed.
  Hint Resolve strict_p_one_op : cons.

  Lemma mono_p_ops_loop f : mono (p_ops_loop parse_expr f).
  Proof. induction f as [|f IH]; cbn [p_ops_loop]; mono_go. Qed.
  Hint Resolve mono_p_ops_loop : cons.

  Lemma strict_p_field_operation f : strict (p_field_operation parse_expr f).
  Proof.
    unfold p_field_operation. apply strict_bind_r; [mono_go|]. intros sp.
    apply strict_bind_r; [mono_go|]. intros ts. cbv zeta.
    apply strict_bind_r; [mono_go|]. intros _.
    apply strict_bind_l; [apply strict_p_field_name|]. intros name. mono_go.
  Qed.
  Hint Resolve strict_p_field_operation : cons.

  Lemma strict_p_cmp_op : strict (p_cmp_op join_ok).
  Proof.
    unfold p_cmp_op. apply strict_bind_r; [mono_go|]. intros ts. cbv zeta.
    repeat match goal with
           | |- strict (if ?b then _ else _) => destruct b
           | |- strict (bind (p_punct _) _) => apply strict_bind_l; [apply strict_p_punct|intros ?; apply mono_ret]
           end.
    apply strict_fail.
  Qed.
  Hint Resolve strict_p_cmp_op : cons.

  Lemma strict_leaves :
    strict (p_comparison join_ok parse_expr) /\ strict (p_like parse_expr) /\ strict (p_closure_pat parse_closure) /\
    strict (p_range parse_expr) /\ strict (p_simple parse_expr) /\ strict p_wild.
  Proof.
    unfold p_comparison, p_like, p_closure_pat, p_range, p_simple, p_wild. repeat split.
    - apply strict_bind_l; [apply strict_p_cmp_op|]. intros o. mono_go.
    - apply strict_bind_l; [apply strict_p_punct|]. intros _. mono_go.
    - apply strict_bind_l; [apply strict_p_closure|]. intros c. mono_go.
    - apply strict_bind_l; [apply strict_p_expr|]. intros r. mono_go.
    - apply strict_bind_l; [apply strict_p_expr|]. intros r. mono_go.
    - intros sc st a st' E. unfold bind, get_toks in E.
      destruct (peek_ident "_" (toks st)) eqn:Hp; [|discriminate].
      destruct (toks st) as [|t r] eqn:Ht; [discriminate|].
      unfold advance, fresh, ret in E. rewrite Ht in E. cbn [skipn toks ctr unx] in E. inversion E; subst.
      unfold mu; cbn [toks]. rewrite Ht. cbn [tsizes]. pose proof (tsize_pos t). lia.
  Qed.

  Lemma strict_get_toks_bind {A} (k : list ttree -> M A) :
    (forall ts sc st a st', toks st = ts -> k ts sc st = POk a st' -> mu st' + 1 <= mu st) -> strict (bind get_toks k).
  Proof. intros H sc st a st' E. unfold bind, get_toks in E. eapply H; [reflexivity|exact E]. Qed.

  (* 1. consumption, all thirteen functions *)
  Definition all_cons (f : nat) : Prop :=
    strict (p_pattern f) /\ strict (p_struct f) /\ mono (p_fields f) /\ strict (p_enum f) /\ strict (p_tuple f) /\
    (forall pos, mono (p_elems f pos)) /\ (forall pos, strict (p_indexed f pos)) /\ strict (p_slice f) /\
    mono (p_list f) /\ strict (p_set f) /\ mono (p_set_elems f) /\ strict (p_map f) /\ mono (p_map_entries f).

  Lemma all_cons_holds : forall f, all_cons f.
  Proof.
    induction f as [|f IH].
    { unfold all_cons; repeat split; intros; first [apply strict_fuel | apply mono_fuel]. }
    destruct IH as (Hpat & Hstruct & Hfields & Henum & Htuple & Helems & Hindexed & Hslice & Hlist &
                    Hset & Hsetel & Hmap & Hmapen).
    destruct strict_leaves as (Lcmp & Llike & Lclos & Lrange & Lsimple & Lwild).
    pose proof (strict_mono _ Hpat) as Mpat.
    assert (Mindexed : forall pos, mono (p_indexed f pos)) by (intros; apply strict_mono; apply Hindexed).
    unfold all_cons. repeat split; try intros pos.
    - (* p_pattern *)
      cbn [Parser.p_pattern]. apply strict_bind_r; [mono_go|]. intros ts.
      repeat match goal with |- strict (if ?b then _ else _) => destruct b end; try assumption; try apply strict_fail.
      apply strict_bind_r; [mono_go|]. intros pk. destruct pk as [[pkp after]|].
      { destruct (peek_group DBrace after); assumption. }
      apply strict_bind_r; [mono_go|]. intros rk. destruct rk; [assumption|].
      apply strict_get_toks_bind. intros now sc st a st' Hnow E.
      destruct now as [|t r]; [exact (Lsimple _ _ _ _ E)|].
      destruct t as [| |k text sp|]; try exact (Lsimple _ _ _ _ E).
      destruct k; try exact (Lsimple _ _ _ _ E).
      apply bind_inv in E as (u & st1 & E1 & E2).
      apply bind_inv in E2 as (id & st2 & E2 & E3). inversion E3; subst. inversion E2; subst. inversion E1; subst.
      unfold mu; cbn. rewrite Hnow. cbn. lia.
    - (* p_struct *)
      cbn [Parser.p_struct]. apply strict_bind_r; [mono_go|]. intros id.
      apply strict_bind_r; [mono_go|]. intros ts.
      apply strict_bind_r; [mono_go|]. intros hd.
      apply strict_bind_l; [apply strict_in_group|]. intros g. mono_go.
    - cbn [Parser.p_fields]. mono_go.
    - (* p_enum *)
      cbn [Parser.p_enum]. apply strict_bind_l; [apply strict_p_path|]. intros path. mono_go.
    - cbn [Parser.p_tuple]. apply strict_bind_l; [apply strict_in_group|]. intros g. mono_go.
    - cbn [Parser.p_elems]. mono_go.
    - (* p_indexed *)
      cbn [Parser.p_indexed]. apply strict_bind_l; [apply strict_p_field_operation|]. intros ops. mono_go.
    - cbn [Parser.p_slice]. apply strict_bind_l; [apply strict_in_group|]. intros g. mono_go.
    - cbn [Parser.p_list]. mono_go.
    - cbn [Parser.p_set]. apply strict_bind_l; [apply strict_p_punct|]. intros hash. mono_go.
    - cbn [Parser.p_set_elems]. mono_go.
    - cbn [Parser.p_map]. apply strict_bind_l; [apply strict_p_punct|]. intros hash. mono_go.
    - cbn [Parser.p_map_entries]. mono_go.
  Qed.

  Lemma strict_p_pattern f : strict (p_pattern f).
  Proof. exact (proj1 (all_cons_holds f)). Qed.

  (* 2. no function runs out of fuel above a linear bound in the size of its tokens *)
  Definition nf {A} (m : M A) (b : nat) : Prop := forall sc st, mu st <= b -> m sc st <> PFuel.

  Lemma nf_ret {A} (a : A) b : nf (ret a) b.          Proof. intros sc st _; discriminate. Qed.
  Lemma nf_fail {A} b : nf (@fail A) b.                Proof. intros sc st _; discriminate. Qed.
  Lemma nf_fail_at {A} sp b : nf (@fail_at A sp) b.    Proof. intros sc st _; discriminate. Qed.
  Lemma nf_panic {A} s b : nf (@panic A s) b.          Proof. intros sc st _; discriminate. Qed.
  Lemma nf_cur_span b : nf cur_span b.                 Proof. intros sc st _; discriminate. Qed.
  Lemma nf_get_toks b : nf get_toks b.                 Proof. intros sc st _; discriminate. Qed.
  Lemma nf_advance n b : nf (advance n) b.             Proof. intros sc st _; discriminate. Qed.
  Lemma nf_fresh b : nf fresh b.                       Proof. intros sc st _; discriminate. Qed.
  Lemma nf_is_empty b : nf is_empty b.                 Proof. intros sc st _; discriminate. Qed.
  Lemma nf_peek f b : nf (peek f) b.                   Proof. intros sc st _; discriminate. Qed.
  Lemma nf_p_punct s b : nf (p_punct s) b.
  Proof. intros sc st _. unfold p_punct, bind, get_toks. destruct (peek_punct s (toks st)); discriminate. Qed.
  Lemma nf_p_expr b : nf p_expr b.
  Proof. intros sc st _. unfold Parser.p_expr. destruct (parse_expr (toks st)); discriminate. Qed.
  Lemma nf_p_path b : nf p_path b.
  Proof. intros sc st _. unfold Parser.p_path. destruct (parse_path (toks st)); discriminate. Qed.
  Lemma nf_p_closure b : nf p_closure b.
  Proof. intros sc st _. unfold Parser.p_closure. destruct (parse_closure (toks st)); discriminate. Qed.
  Lemma nf_p_field_name b : nf p_field_name b.
  Proof.
    intros sc st _. unfold p_field_name. destruct (toks st) as [|t r]; [discriminate|].
    destruct t as [s sp| |k ? ?|]; try discriminate.
    - destruct (is_keyword s); discriminate.
    - destruct k as [|[n|]| |]; try discriminate. destruct (index_fits n); discriminate.
  Qed.

  Lemma nf_bind_mono {A B} (m : M A) (k : A -> M B) b : nf m b -> mono m -> (forall a, nf (k a) b) -> nf (bind m k) b.
  Proof.
    intros Hm Mm Hk sc st Hb. unfold bind. destruct (m sc st) as [a st'| | |] eqn:E; try discriminate.
    - apply Hk. specialize (Mm _ _ _ _ E). lia.
    - intros _. exact (Hm sc st Hb E).
  Qed.
  Lemma nf_bind_strict {A B} (m : M A) (k : A -> M B) b :
    nf m b -> strict m -> (1 <= b -> forall a, nf (k a) (b - 1)) -> nf (bind m k) b.
  Proof.
    intros Hm Sm Hk sc st Hb. unfold bind. destruct (m sc st) as [a st'| | |] eqn:E; try discriminate.
    - specialize (Sm _ _ _ _ E). apply Hk; lia.
    - intros _. exact (Hm sc st Hb E).
  Qed.
  Lemma nf_in_group {A} d (body : M A) b : (1 <= b -> nf body (b - 1)) -> nf (in_group d body) b.
  Proof.
    intros Hb sc st Hst. unfold in_group.
    destruct (toks st) as [|t r] eqn:Ht; [discriminate|]. destruct t as [| | |d' sp spo spc inner]; try discriminate.
    destruct (delim_eqb d d'); [|discriminate].
    assert (Hin : tsizes inner + 1 <= b).
    { unfold mu in Hst. rewrite Ht in Hst. cbn [tsizes] in Hst. rewrite tsize_group in Hst. lia. }
    match goal with |- context [body ?x ?y] => destruct (body x y) eqn:E end; try discriminate.
    exfalso. refine (Hb _ spc _ _ E); [lia|]. unfold mu; cbn. lia.
  Qed.
  Lemma nf_fork {A} (m : M A) b : nf m b -> nf (fork m) b.
  Proof.
    intros Hm sc st Hb. unfold fork.
    match goal with |- context [m ?x ?y] => destruct (m x y) eqn:E end; try discriminate.
    exfalso. refine (Hm _ _ _ E). exact Hb.
  Qed.
  Lemma nf_weaken {A} (m : M A) b b' : nf m b -> b' <= b -> nf m b'.
  Proof. intros H Hle sc st Hb. apply H. lia. Qed.

  Hint Resolve nf_ret nf_fail nf_fail_at nf_panic nf_cur_span nf_get_toks nf_advance nf_fresh nf_is_empty nf_peek
       nf_p_punct nf_p_expr nf_p_path nf_p_closure nf_p_field_name nf_fork : nfdb.

  (* symbolic execution with every step treated as not consuming; the strict steps that matter are applied by hand *)
  Ltac nf_go :=
    repeat first
      [ solve [eauto with nfdb]
      | apply nf_bind_mono; [ | solve [mono_go] | intros ?]
      | apply nf_fork
      | match goal with
        | |- nf (if ?b then _ else _) _ => destruct b
        | |- nf (match ?x with _ => _ end) _ => destruct x
        | |- nf (let _ := _ in _) _ => cbv zeta
        end ].

  Lemma nf_p_args : forall f b, b + 1 <= f -> nf (p_args parse_expr f) b.
  Proof.
    induction f as [|f IH]; intros b Hf; [lia|]. cbn [p_args].
    apply nf_bind_mono; [apply nf_is_empty|mono_go|]. intros e. destruct e; [apply nf_ret|].
    apply nf_bind_strict; [apply nf_p_expr|apply strict_p_expr|]. intros Hb r.
    assert (N : nf (p_args parse_expr f) (b - 1)) by (apply IH; lia).
    nf_go.
  Qed.

  Lemma nf_p_dot_op f b : b <= f -> nf (p_dot_op parse_expr f) b.
  Proof.
    intros Hf. unfold p_dot_op.
    apply nf_bind_mono; [apply nf_cur_span|mono_go|]. intros dot.
    apply nf_bind_strict; [apply nf_p_punct|apply strict_p_punct|]. intros Hb _.
    apply nf_bind_mono; [apply nf_get_toks|mono_go|]. intros ts.
    assert (N : 1 <= b - 1 -> nf (p_args parse_expr f) (b - 1 - 1)) by (intros; apply nf_p_args; lia).
    assert (G : nf (in_group DParen (p_args parse_expr f)) (b - 1)) by (apply nf_in_group; exact N).
    nf_go.
  Qed.

  Lemma nf_p_one_op f b : b <= f -> nf (p_one_op parse_expr f) b.
  Proof.
    intros Hf. unfold p_one_op.
    apply nf_bind_mono; [apply nf_get_toks|mono_go|]. intros ts.
    destruct (peek_punct "." ts); [apply nf_p_dot_op; exact Hf|].
    destruct (peek_group DBracket ts); [|apply nf_fail].
    apply nf_bind_mono; [apply nf_in_group; intros; apply nf_p_expr|apply strict_mono; apply strict_in_group|].
    intros g. destruct g as [[[? ?] ?] ?]. apply nf_ret.
  Qed.

  Lemma nf_p_ops_loop : forall f b, b + 2 <= f -> nf (p_ops_loop parse_expr f) b.
  Proof.
    induction f as [|f IH]; intros b Hf; [lia|]. cbn [p_ops_loop].
    apply nf_bind_mono; [apply nf_get_toks|mono_go|]. intros ts.
    destruct (peek_punct "." ts || peek_group DBracket ts); [|apply nf_ret].
    apply nf_bind_strict; [apply nf_p_one_op; lia|apply strict_p_one_op|]. intros Hb o.
    assert (N : nf (p_ops_loop parse_expr f) (b - 1)) by (apply IH; lia).
    nf_go.
  Qed.

  Lemma nf_p_field_operation f b : b + 2 <= f -> nf (p_field_operation parse_expr f) b.
  Proof.
    intros Hf. unfold p_field_operation.
    assert (N : nf (p_ops_loop parse_expr f) b) by (apply nf_p_ops_loop; exact Hf).
    nf_go.
  Qed.

  Lemma nf_leaves b :
    nf (p_comparison join_ok parse_expr) b /\ nf (p_like parse_expr) b /\ nf (p_closure_pat parse_closure) b /\
    nf (p_range parse_expr) b /\ nf (p_simple parse_expr) b /\ nf p_wild b /\ nf (p_cmp_op join_ok) b.
  Proof.
    assert (C : nf (p_cmp_op join_ok) b).
    { unfold p_cmp_op. nf_go. }
    unfold p_comparison, p_like, p_closure_pat, p_range, p_simple, p_wild. repeat split; try exact C; nf_go.
  Qed.

  Definition all_nf (f : nat) : Prop := forall b,
    (4 * b + 4 <= f -> nf (p_pattern f) b) /\ (4 * b + 3 <= f -> nf (p_struct f) b) /\
    (4 * b + 6 <= f -> nf (p_fields f) b) /\ (4 * b + 3 <= f -> nf (p_enum f) b) /\
    (4 * b + 3 <= f -> nf (p_tuple f) b) /\ (4 * b + 6 <= f -> forall pos, nf (p_elems f pos) b) /\
    (4 * b + 5 <= f -> forall pos, nf (p_indexed f pos) b) /\ (4 * b + 3 <= f -> nf (p_slice f) b) /\
    (4 * b + 6 <= f -> nf (p_list f) b) /\ (4 * b + 3 <= f -> nf (p_set f) b) /\
    (4 * b + 6 <= f -> nf (p_set_elems f) b) /\ (4 * b + 3 <= f -> nf (p_map f) b) /\
    (4 * b + 6 <= f -> nf (p_map_entries f) b).

  Lemma all_nf_holds : forall f, all_nf f.
  Proof.
    induction f as [|f IH].
    { intros b. repeat split; intros; lia. }
    intros b.
    destruct (all_cons_holds f) as (Spat & Sstruct & Mfields & Senum & Stuple & Melems & Sindexed & Sslice & Mlist &
                                    Sset & Msetel & Smap & Mmapen).
    pose proof (strict_mono _ Spat) as Mpat.
    destruct (nf_leaves b) as (Lcmp & Llike & Lclos & Lrange & Lsimple & Lwild & Lop).
    destruct strict_leaves as (SLcmp & SLlike & SLclos & SLrange & SLsimple & SLwild).
    (* the induction hypothesis at the two bounds that occur *)
    destruct (IH b) as (Ipat & Istruct & Ifields & Ienum & Ituple & Ielems & Iindexed & Islice & Ilist &
                        Iset & Isetel & Imap & Imapen).
    destruct (IH (b - 1)) as (Jpat & Jstruct & Jfields & Jenum & Jtuple & Jelems & Jindexed & Jslice & Jlist &
                              Jset & Jsetel & Jmap & Jmapen).
    repeat split; intros Hf; try intros pos.
    - (* p_pattern *)
      cbn [Parser.p_pattern].
      assert (N1 : nf (p_struct f) b) by (apply Istruct; lia). assert (N2 : nf (p_enum f) b) by (apply Ienum; lia).
      assert (N3 : nf (p_tuple f) b) by (apply Ituple; lia). assert (N4 : nf (p_slice f) b) by (apply Islice; lia).
      assert (N5 : nf (p_set f) b) by (apply Iset; lia). assert (N6 : nf (p_map f) b) by (apply Imap; lia).
      nf_go.
    - (* p_struct *)
      cbn [Parser.p_struct].
      assert (G : nf (in_group DBrace (p_fields f)) b) by (apply nf_in_group; intros; apply Jfields; lia).
      nf_go.
    - (* p_fields *)
      cbn [Parser.p_fields].
      apply nf_bind_mono; [apply nf_is_empty|mono_go|]. intros e. destruct e; [apply nf_ret|].
      apply nf_bind_mono; [apply nf_peek|mono_go|]. intros d. destruct d; [nf_go|].
      apply nf_bind_strict; [apply nf_p_field_operation; lia|apply strict_p_field_operation; assumption|]. intros Hb ops.
      assert (N1 : nf (p_pattern f) (b - 1)) by (apply Jpat; lia).
      assert (N2 : nf (p_fields f) (b - 1)) by (apply Jfields; lia).
      nf_go.
    - (* p_enum *)
      cbn [Parser.p_enum].
      assert (G : nf (in_group DParen (p_elems f 0%N)) b) by (apply nf_in_group; intros; apply Jelems; lia).
      nf_go.
    - (* p_tuple *)
      cbn [Parser.p_tuple].
      assert (G : nf (in_group DParen (p_elems f 0%N)) b) by (apply nf_in_group; intros; apply Jelems; lia).
      nf_go.
    - (* p_elems *)
      cbn [Parser.p_elems].
      assert (N1 : nf (p_pattern f) b) by (apply Ipat; lia).
      assert (N2 : nf (p_indexed f pos) b) by (apply Iindexed; lia).
      apply nf_bind_mono; [apply nf_is_empty|mono_go|]. intros e. destruct e; [apply nf_ret|].
      apply nf_bind_mono; [apply nf_fork; exact N1|mono_go|]. intros fk.
      apply nf_bind_strict.
      + nf_go.
      + destruct fk as [[fkp after]|]; [|apply Sindexed].
        destruct (negb (peek_punct ":" after)); [|apply Sindexed].
        apply strict_bind_l; [exact Spat|]. intros; apply mono_ret.
      + intros Hb el.
        assert (N3 : nf (p_elems f (N.succ pos)) (b - 1)) by (apply Jelems; lia).
        nf_go.
    - (* p_indexed *)
      cbn [Parser.p_indexed].
      assert (N1 : nf (p_pattern f) b) by (apply Ipat; lia).
      assert (N2 : nf (p_field_operation parse_expr f) b) by (apply nf_p_field_operation; lia).
      nf_go.
    - (* p_slice *)
      cbn [Parser.p_slice].
      assert (G : nf (in_group DBracket (p_list f)) b) by (apply nf_in_group; intros; apply Jlist; lia).
      nf_go.
    - (* p_list *)
      cbn [Parser.p_list].
      apply nf_bind_mono; [apply nf_is_empty|mono_go|]. intros e. destruct e; [apply nf_ret|].
      apply nf_bind_strict; [apply Ipat; lia|exact Spat|]. intros Hb p.
      assert (N2 : nf (p_list f) (b - 1)) by (apply Jlist; lia).
      nf_go.
    - (* p_set *)
      cbn [Parser.p_set].
      assert (G : nf (in_group DParen (p_set_elems f)) b) by (apply nf_in_group; intros; apply Jsetel; lia).
      nf_go.
    - (* p_set_elems *)
      cbn [Parser.p_set_elems].
      apply nf_bind_mono; [apply nf_is_empty|mono_go|]. intros e. destruct e; [apply nf_ret|].
      apply nf_bind_mono; [apply nf_peek|mono_go|]. intros d. destruct d; [nf_go|].
      apply nf_bind_strict; [apply Ipat; lia|exact Spat|]. intros Hb p.
      assert (N2 : nf (p_set_elems f) (b - 1)) by (apply Jsetel; lia).
      nf_go.
    - (* p_map *)
      cbn [Parser.p_map].
      assert (G : nf (in_group DBrace (p_map_entries f)) b) by (apply nf_in_group; intros; apply Jmapen; lia).
      nf_go.
    - (* p_map_entries *)
      cbn [Parser.p_map_entries].
      apply nf_bind_mono; [apply nf_is_empty|mono_go|]. intros e. destruct e; [apply nf_ret|].
      apply nf_bind_mono; [apply nf_peek|mono_go|]. intros d. destruct d; [nf_go|].
      apply nf_bind_strict; [apply nf_p_expr|apply strict_p_expr|]. intros Hb k.
      assert (N1 : nf (p_pattern f) (b - 1)) by (apply Jpat; lia).
      assert (N2 : nf (p_map_entries f) (b - 1)) by (apply Jmapen; lia).
      nf_go.
  Qed.

  Notation parse_top_from := (parse_top_from regex join_ok parse_expr parse_path parse_closure).

  Theorem parse_top_terminates start ts : parse_top_from (fuel_for ts) start ts <> TFuel.
  Proof.
    unfold Parser.parse_top_from.
    match goal with |- context [?m SCall ?st] => assert (H : nf m (tsizes ts)) end.
    { assert (N : nf (p_pattern (fuel_for ts)) (tsizes ts)).
      { apply (proj1 (all_nf_holds (fuel_for ts) (tsizes ts))). unfold fuel_for. lia. }
      pose proof (strict_p_pattern (fuel_for ts)) as S. nf_go. }
    match goal with |- context [?m SCall ?st] => specialize (H SCall st); destruct (m SCall st) as [[v p] st'| | |] end.
    - destruct (unx st'); [discriminate|]. destruct (toks st'); discriminate.
    - discriminate.
    - discriminate.
    - exfalso. apply H; [unfold mu; cbn; lia|reflexivity].
  Qed.

  Theorem front_end_terminates start ts :
    front_end_from regex join_ok parse_expr parse_path parse_closure start ts <> FEFuel.
  Proof.
    unfold front_end_from. pose proof (parse_top_terminates start ts) as H.
    destruct (parse_top_from (fuel_for ts) start ts); try discriminate.
    - destruct (stmt_panics _); discriminate.
    - contradiction.
  Qed.

  (* the front end is total: an expansion or a compile error, nothing else *)
  Theorem front_end_total start ts :
    (exists v p code, front_end_from regex join_ok parse_expr parse_path parse_closure start ts = FEOk v p code) \/
    (exists sp, front_end_from regex join_ok parse_expr parse_path parse_closure start ts = FEErr sp).
  Proof.
    pose proof (front_end_terminates start ts) as T.
    pose proof (front_end_no_panic regex join_ok parse_expr parse_path parse_closure start ts) as P.
    destruct (front_end_from regex join_ok parse_expr parse_path parse_closure start ts) as [v p c|sp|site|].
    - left. eauto.
    - right. eauto.
    - exfalso. exact (P site eq_refl).
    - exfalso. exact (T eq_refl).
  Qed.
End FuelP.
