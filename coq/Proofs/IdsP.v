(* IdsP.v — node ids (C14): the ids of the nodes of every parsed tree are pairwise distinct, lie
   between the counter value at the start of the parse and the value at its end, and the counter
   never decreases — through speculative parses (fork) and failed ones included.  Together with
   the reset at the start of every invocation (parse_top_from ignores the value it is handed) this
   is "every node the expansion refers to is defined exactly once" and "the expansion does not
   depend on earlier invocations". *)
From Coq Require Import Lia.
From ASModel Require Import Base Tokens Report Ast IR Expand Parser FrontEnd.
From ASModel Require Import Nodes.
From ASProofs Require Import PatInd NodesP ParserP RejectP FuelP GrammarP.
Local Open Scope N_scope.

(* ---- the counter never decreases, whatever the outcome ---------------------------------- *)

Definition cmono {A} (m : M A) : Prop :=
  forall sc st, match m sc st with
                | POk _ st' => ctr st <= ctr st'
                | PErr _ c => ctr st <= c
                | _ => True
                end.

Lemma cmono_ret {A} (a : A) : cmono (ret a).            Proof. intros sc st; cbn; lia. Qed.
Lemma cmono_fail {A} : cmono (@fail A).                 Proof. intros sc st; cbn; lia. Qed.
Lemma cmono_fail_at {A} sp : cmono (@fail_at A sp).     Proof. intros sc st; cbn; lia. Qed.
Lemma cmono_panic {A} s : cmono (@panic A s).           Proof. intros sc st; exact I. Qed.
Lemma cmono_fuel {A} : cmono (@out_of_fuel A).          Proof. intros sc st; exact I. Qed.
Lemma cmono_cur_span : cmono cur_span.                  Proof. intros sc st; cbn; lia. Qed.
Lemma cmono_get_toks : cmono get_toks.                  Proof. intros sc st; cbn; lia. Qed.
Lemma cmono_advance n : cmono (advance n).              Proof. intros sc st; cbn; lia. Qed.
Lemma cmono_fresh : cmono fresh.                        Proof. intros sc st; cbn; lia. Qed.
Lemma cmono_is_empty : cmono is_empty.                  Proof. intros sc st; cbn; lia. Qed.
Lemma cmono_peek f : cmono (peek f).                    Proof. intros sc st; cbn; lia. Qed.
Lemma cmono_bind {A B} (m : M A) (k : A -> M B) : cmono m -> (forall a, cmono (k a)) -> cmono (bind m k).
Proof.
  intros Hm Hk sc st. unfold bind. specialize (Hm sc st). destruct (m sc st) as [a st'| | |]; try exact I; try exact Hm.
  specialize (Hk a sc st'). destruct (k a sc st'); try exact I; lia.
Qed.
Lemma cmono_p_punct s : cmono (p_punct s).
Proof. intros sc st. unfold p_punct, bind, get_toks. destruct (peek_punct s (toks st)); cbn; lia. Qed.
Lemma cmono_in_group {A} d (body : M A) : cmono body -> cmono (in_group d body).
Proof.
  intros Hb sc st. unfold in_group. destruct (toks st) as [|t r]; [cbn; lia|].
  destruct t; try (cbn; lia). destruct (delim_eqb d d0); [|cbn; lia].
  match goal with |- context [body ?x ?y] => specialize (Hb x y); destruct (body x y) end; try exact I; cbn in *; lia.
Qed.
Lemma cmono_fork {A} (m : M A) : cmono m -> cmono (fork m).
Proof.
  intros Hm sc st. unfold fork.
  match goal with |- context [m ?x ?y] => specialize (Hm x y); destruct (m x y) end; try exact I; cbn in *; lia.
Qed.

Global Hint Resolve cmono_ret cmono_fail cmono_fail_at cmono_panic cmono_fuel cmono_cur_span cmono_get_toks cmono_advance
     cmono_fresh cmono_is_empty cmono_peek cmono_p_punct : cmonodb.

Ltac cmono_go :=
  repeat first
    [ solve [eauto with cmonodb]
    | apply cmono_bind; [|intros ?]
    | apply cmono_in_group
    | apply cmono_fork
    | match goal with
      | |- cmono (if ?b then _ else _) => destruct b
      | |- cmono (match ?x with _ => _ end) => destruct x
      | |- cmono (let _ := _ in _) => cbv zeta
      end ].

(* ---- ranges of ids ----------------------------------------------------------------------- *)

Definition ids_ok (lo hi : N) (l : list N) : Prop := NoDup l /\ Forall (fun i => lo <= i < hi) l.

Lemma ids_ok_nil lo hi : ids_ok lo hi [].
Proof. split; constructor. Qed.
Lemma ids_ok_single lo hi i : lo <= i < hi -> ids_ok lo hi [i].
Proof. intros H. split; [constructor; [intros []|constructor]|constructor; [exact H|constructor]]. Qed.
Lemma ids_ok_widen a b a' b' l : ids_ok a b l -> a' <= a -> b <= b' -> ids_ok a' b' l.
Proof.
  intros [N F] Ha Hb. split; [exact N|]. eapply Forall_impl; [|exact F]. cbn. intros i Hi. lia.
Qed.
Lemma NoDup_app_disjoint {A} (l1 l2 : list A) :
  NoDup l1 -> NoDup l2 -> (forall x, In x l1 -> In x l2 -> False) -> NoDup (l1 ++ l2).
Proof.
  induction l1 as [|x l1 IH]; intros N1 N2 D; [exact N2|].
  inversion N1; subst. cbn. constructor.
  - intros Hin. apply in_app_or in Hin as [Hin|Hin]; [contradiction|]. apply (D x); [left; reflexivity|exact Hin].
  - apply IH; [assumption|assumption|]. intros y Hy1 Hy2. apply (D y); [right; exact Hy1|exact Hy2].
Qed.

Lemma ids_ok_app a b c l1 l2 : ids_ok a b l1 -> ids_ok b c l2 -> a <= b -> b <= c -> ids_ok a c (l1 ++ l2).
Proof.
  intros [N1 F1] [N2 F2] Hab Hbc. split.
  - apply NoDup_app_disjoint; [exact N1|exact N2|]. intros x Hx1 Hx2.
    rewrite Forall_forall in F1, F2. specialize (F1 x Hx1). specialize (F2 x Hx2). lia.
  - apply Forall_app. split; (eapply Forall_impl; [|eassumption]); cbn; intros i Hi; lia.
Qed.

Section IdsP.
  Variable regex join_ok : bool.
  Variable parse_expr : list ttree -> ores expr_ok.
  Variable parse_path : list ttree -> ores path_ok.
  Variable parse_closure : list ttree -> ores closure_ok.

  Notation p_expr := (p_expr parse_expr).
  Notation p_path := (p_path parse_path).
  Notation p_closure := (p_closure parse_closure).
  Notation p_pattern := (p_pattern regex join_ok parse_expr parse_path parse_closure).
  Notation p_struct := (p_struct regex join_ok parse_expr parse_path parse_closure).
  Notation p_fields := (p_fields regex join_ok parse_expr parse_path parse_closure).
  Notation p_enum := (p_enum regex join_ok parse_expr parse_path parse_closure).
  Notation p_tuple := (p_tuple regex join_ok parse_expr parse_path parse_closure).
  Notation p_elems := (p_elems regex join_ok parse_expr parse_path parse_closure).
  Notation p_indexed := (p_indexed regex join_ok parse_expr parse_path parse_closure).
  Notation p_slice := (p_slice regex join_ok parse_expr parse_path parse_closure).
  Notation p_list := (p_list regex join_ok parse_expr parse_path parse_closure).
  Notation p_set := (p_set regex join_ok parse_expr parse_path parse_closure).
  Notation p_set_elems := (p_set_elems regex join_ok parse_expr parse_path parse_closure).
  Notation p_map := (p_map regex join_ok parse_expr parse_path parse_closure).
  Notation p_map_entries := (p_map_entries regex join_ok parse_expr parse_path parse_closure).

  Lemma cmono_p_expr : cmono p_expr.
  Proof. intros sc st. unfold Parser.p_expr. destruct (parse_expr (toks st)); cbn; lia. Qed.
  Lemma cmono_p_path : cmono p_path.
  Proof. intros sc st. unfold Parser.p_path. destruct (parse_path (toks st)); cbn; lia. Qed.
  Lemma cmono_p_closure : cmono p_closure.
  Proof. intros sc st. unfold Parser.p_closure. destruct (parse_closure (toks st)); cbn; lia. Qed.
  Hint Resolve cmono_p_expr cmono_p_path cmono_p_closure : cmonodb.

  Lemma cmono_p_field_name : cmono p_field_name.
  Proof.
    intros sc st. unfold p_field_name. destruct (toks st) as [|t r]; [cbn; lia|].
    destruct t as [s sp| |k ? ?|]; try (cbn; lia).
    - destruct (is_keyword s); cbn; lia.
    - destruct k as [|[n|]| |]; try (cbn; lia). destruct (index_fits n); cbn; lia.
  Qed.
  Hint Resolve cmono_p_field_name : cmonodb.

  Lemma cmono_p_args f : cmono (p_args parse_expr f).
  Proof. induction f as [|f IH]; cbn [p_args]; cmono_go. Qed.
  Hint Resolve cmono_p_args : cmonodb.
  Lemma cmono_p_dot_op f : cmono (p_dot_op parse_expr f).
  Proof. unfold p_dot_op. cmono_go. Qed.
  Hint Resolve cmono_p_dot_op : cmonodb.
  Lemma cmono_p_one_op f : cmono (p_one_op parse_expr f).
  Proof. unfold p_one_op. cmono_go. Qed.
  Hint Resolve cmono_p_one_op : cmonodb.
  Lemma cmono_p_ops_loop f : cmono (p_ops_loop parse_expr f).
  Proof. induction f as [|f IH]; cbn [p_ops_loop]; cmono_go. Qed.
  Hint Resolve cmono_p_ops_loop : cmonodb.
  Lemma cmono_p_field_operation f : cmono (p_field_operation parse_expr f).
  Proof. unfold p_field_operation. cmono_go. Qed.
  Hint Resolve cmono_p_field_operation : cmonodb.
  Lemma cmono_p_cmp_op : cmono (p_cmp_op join_ok).
  Proof. unfold p_cmp_op. cmono_go. Qed.
  Hint Resolve cmono_p_cmp_op : cmonodb.

  Lemma cmono_leaves :
    cmono (p_comparison join_ok parse_expr) /\ cmono (p_like parse_expr) /\ cmono (p_closure_pat parse_closure) /\
    cmono (p_range parse_expr) /\ cmono (p_simple parse_expr) /\ cmono p_wild.
  Proof. unfold p_comparison, p_like, p_closure_pat, p_range, p_simple, p_wild. repeat split; cmono_go. Qed.

  Definition all_cmono (f : nat) : Prop :=
    cmono (p_pattern f) /\ cmono (p_struct f) /\ cmono (p_fields f) /\ cmono (p_enum f) /\ cmono (p_tuple f) /\
    (forall pos, cmono (p_elems f pos)) /\ (forall pos, cmono (p_indexed f pos)) /\ cmono (p_slice f) /\
    cmono (p_list f) /\ cmono (p_set f) /\ cmono (p_set_elems f) /\ cmono (p_map f) /\ cmono (p_map_entries f).

  Lemma all_cmono_holds : forall f, all_cmono f.
  Proof.
    induction f as [|f IH].
    { unfold all_cmono; repeat split; intros; apply cmono_fuel. }
    destruct IH as (Hpat & Hstruct & Hfields & Henum & Htuple & Helems & Hindexed & Hslice & Hlist &
                    Hset & Hsetel & Hmap & Hmapen).
    destruct cmono_leaves as (Lcmp & Llike & Lclos & Lrange & Lsimple & Lwild).
    unfold all_cmono. repeat split; try intros pos.
    - cbn [Parser.p_pattern]. cmono_go.
    - cbn [Parser.p_struct]. cmono_go.
    - cbn [Parser.p_fields]. cmono_go.
    - cbn [Parser.p_enum]. cmono_go.
    - cbn [Parser.p_tuple]. cmono_go.
    - cbn [Parser.p_elems]. cmono_go.
    - cbn [Parser.p_indexed]. cmono_go.
    - cbn [Parser.p_slice]. cmono_go.
    - cbn [Parser.p_list]. cmono_go.
    - cbn [Parser.p_set]. cmono_go.
    - cbn [Parser.p_set_elems]. cmono_go.
    - cbn [Parser.p_map]. cmono_go.
    - cbn [Parser.p_map_entries]. cmono_go.
  Qed.

  Lemma cmono_p_pattern f : cmono (p_pattern f).
  Proof. exact (proj1 (all_cmono_holds f)). Qed.

  Lemma cmono_ok {A} (m : M A) sc st a st' : cmono m -> m sc st = POk a st' -> ctr st <= ctr st'.
  Proof. intros H E. specialize (H sc st). rewrite E in H. exact H. Qed.

  (* ---- what each primitive does to the counter ------------------------------------------- *)

  Lemma c_fresh sc st a st' : fresh sc st = POk a st' -> a = ctr st /\ ctr st' = N.succ (ctr st).
  Proof. intros H; inversion H; auto. Qed.
  Lemma c_advance n sc st a st' : advance n sc st = POk a st' -> ctr st' = ctr st.
  Proof. intros H; inversion H; auto. Qed.
  Lemma c_p_punct s sc st a st' : p_punct s sc st = POk a st' -> ctr st' = ctr st.
  Proof. unfold p_punct, bind, get_toks. destruct (peek_punct s (toks st)); [|discriminate]. cbn. intros H; inversion H; auto. Qed.
  Lemma c_p_expr sc st a st' : p_expr sc st = POk a st' -> ctr st' = ctr st.
  Proof. unfold Parser.p_expr. destruct (parse_expr (toks st)); [|discriminate]. intros H; inversion H; auto. Qed.
  Lemma c_p_path sc st a st' : p_path sc st = POk a st' -> ctr st' = ctr st.
  Proof. unfold Parser.p_path. destruct (parse_path (toks st)); [|discriminate]. intros H; inversion H; auto. Qed.
  Lemma c_p_closure sc st a st' : p_closure sc st = POk a st' -> ctr st' = ctr st.
  Proof. unfold Parser.p_closure. destruct (parse_closure (toks st)); [|discriminate]. intros H; inversion H; auto. Qed.
  Lemma c_in_group {A} d (body : M A) sc st g st' :
    in_group d body sc st = POk g st' ->
    exists spc inner stb, body spc {| toks := inner; ctr := ctr st; unx := unx st |} = POk (snd g) stb /\ ctr st' = ctr stb.
  Proof.
    unfold in_group. destruct (toks st) as [|t r]; [discriminate|]. destruct t as [| | |d' sp spo spc inner]; try discriminate.
    destruct (delim_eqb d d'); [|discriminate].
    match goal with |- context [body ?u ?v] => destruct (body u v) as [res stb| | |] eqn:E end; try discriminate.
    intros H; inversion H; subst; cbn. exists spc, inner, stb. split; [exact E|reflexivity].
  Qed.
  Lemma c_fork {A} (m : M A) sc st a st' : cmono m -> fork m sc st = POk a st' -> ctr st <= ctr st'.
  Proof.
    intros Hm. unfold fork. match goal with |- context [m ?u ?v] => specialize (Hm u v); destruct (m u v) end;
      try discriminate; intros H; inversion H; subst; cbn in *; lia.
  Qed.

  (* field operations allocate nothing *)
  Definition cpres {A} (m : M A) : Prop := forall sc st a st', m sc st = POk a st' -> ctr st' = ctr st.
  Lemma cpres_ret {A} (x : A) : cpres (ret x).  Proof. intros sc st a st' H; inversion H; auto. Qed.
  Lemma cpres_bind {A B} (m : M A) (k : A -> M B) : cpres m -> (forall a, cpres (k a)) -> cpres (bind m k).
  Proof.
    intros Hm Hk sc st b st'' E. apply bind_inv in E as (a & st' & E1 & E2).
    rewrite (Hk a _ _ _ _ E2). exact (Hm _ _ _ _ E1).
  Qed.
  Lemma cpres_fail {A} : cpres (@fail A).              Proof. intros sc st a st' H; discriminate. Qed.
  Lemma cpres_fail_at {A} sp : cpres (@fail_at A sp).  Proof. intros sc st a st' H; discriminate. Qed.
  Lemma cpres_panic {A} s : cpres (@panic A s).        Proof. intros sc st a st' H; discriminate. Qed.
  Lemma cpres_fuel {A} : cpres (@out_of_fuel A).       Proof. intros sc st a st' H; discriminate. Qed.
  Lemma cpres_cur_span : cpres cur_span.   Proof. intros sc st a st' H; inversion H; auto. Qed.
  Lemma cpres_get_toks : cpres get_toks.   Proof. intros sc st a st' H; inversion H; auto. Qed.
  Lemma cpres_is_empty : cpres is_empty.   Proof. intros sc st a st' H; inversion H; auto. Qed.
  Lemma cpres_peek f : cpres (peek f).     Proof. intros sc st a st' H; inversion H; auto. Qed.
  Lemma cpres_advance n : cpres (advance n).  Proof. intros sc st a st' H. exact (c_advance _ _ _ _ _ H). Qed.
  Lemma cpres_p_punct s : cpres (p_punct s).  Proof. intros sc st a st' H. exact (c_p_punct _ _ _ _ _ H). Qed.
  Lemma cpres_p_expr : cpres p_expr.          Proof. intros sc st a st' H. exact (c_p_expr _ _ _ _ H). Qed.
  Lemma cpres_in_group {A} d (body : M A) : cpres body -> cpres (in_group d body).
  Proof.
    intros Hb sc st g st' H. apply c_in_group in H as (spc & inner & stb & E & C). rewrite C. exact (Hb _ _ _ _ E).
  Qed.
  Lemma cpres_p_field_name : cpres p_field_name.
  Proof.
    intros sc st a st' H. unfold p_field_name in H. destruct (toks st) as [|t r]; [discriminate|].
    destruct t as [s sp| |k ? ?|]; try discriminate.
    - destruct (is_keyword s); [discriminate|]. inversion H; auto.
    - destruct k as [|[n|]| |]; try discriminate. destruct (index_fits n); [|discriminate]. inversion H; auto.
  Qed.
  Hint Resolve cpres_ret cpres_fail cpres_fail_at cpres_panic cpres_fuel cpres_cur_span cpres_get_toks cpres_is_empty
       cpres_peek cpres_advance cpres_p_punct cpres_p_expr cpres_p_field_name : cpresdb.
  Ltac cpres_go :=
    repeat first
      [ solve [eauto with cpresdb]
      | apply cpres_bind; [|intros ?]
      | apply cpres_in_group
      | match goal with
        | |- cpres (if ?b then _ else _) => destruct b
        | |- cpres (match ?x with _ => _ end) => destruct x
        | |- cpres (let _ := _ in _) => cbv zeta
        end ].
  Lemma cpres_p_args f : cpres (p_args parse_expr f).
  Proof. induction f as [|f IH]; cbn [p_args]; cpres_go. Qed.
  Hint Resolve cpres_p_args : cpresdb.
  Lemma cpres_p_dot_op f : cpres (p_dot_op parse_expr f).   Proof. unfold p_dot_op. cpres_go. Qed.
  Hint Resolve cpres_p_dot_op : cpresdb.
  Lemma cpres_p_one_op f : cpres (p_one_op parse_expr f).   Proof. unfold p_one_op. cpres_go. Qed.
  Hint Resolve cpres_p_one_op : cpresdb.
  Lemma cpres_p_ops_loop f : cpres (p_ops_loop parse_expr f).
  Proof. induction f as [|f IH]; cbn [p_ops_loop]; cpres_go. Qed.
  Hint Resolve cpres_p_ops_loop : cpresdb.
  Lemma cpres_p_field_operation f : cpres (p_field_operation parse_expr f).
  Proof. unfold p_field_operation. cpres_go. Qed.
  Lemma cpres_p_cmp_op : cpres (p_cmp_op join_ok).   Proof. unfold p_cmp_op. cpres_go. Qed.

  (* ---- the ids of a parsed tree ------------------------------------------------------------ *)

  Lemma ids_ok_app_rev a b c l1 l2 : ids_ok b c l1 -> ids_ok a b l2 -> a <= b -> b <= c -> ids_ok a c (l1 ++ l2).
  Proof.
    intros [N1 F1] [N2 F2] Hab Hbc. split.
    - apply NoDup_app_disjoint; [exact N1|exact N2|]. intros x Hx1 Hx2.
      rewrite Forall_forall in F1, F2. specialize (F1 x Hx1). specialize (F2 x Hx2). lia.
    - apply Forall_app. split; (eapply Forall_impl; [|eassumption]); cbn; intros i Hi; lia.
  Qed.

  Definition idsp (m : M pat) : Prop :=
    forall sc st p st', m sc st = POk p st' -> ctr st <= ctr st' /\ ids_ok (ctr st) (ctr st') (node_ids p).
  Definition ids_of {R} (proj : R -> list N) (m : M R) : Prop :=
    forall sc st r st', m sc st = POk r st' -> ctr st <= ctr st' /\ ids_ok (ctr st) (ctr st') (proj r).

  Definition f_fields (r : list (fop * pat) * bool) := flat_map (fun fp => node_ids (snd fp)) (fst r).
  Definition f_elems (r : list (option fop * pat)) := flat_map (fun el => node_ids (snd el)) r.
  Definition f_elem (el : option fop * pat) := node_ids (snd el).
  Definition f_list (r : list pat) := flat_map (fun el => if is_rest_range el then [] else node_ids el) r.
  Definition f_set (r : list pat * bool) := flat_map node_ids (fst r).
  Definition f_map (r : list (uexpr * pat) * bool) := flat_map (fun kv => node_ids (snd kv)) (fst r).

  (* a leaf: everything before `fresh` keeps the counter; the node is the fresh id *)
  Lemma leaf_ids sc (st s1 st' : pst) (p : pat) id :
    ctr s1 = ctr st -> fresh sc s1 = POk id st' -> node_ids p = [id] -> ctr st <= ctr st' /\ ids_ok (ctr st) (ctr st') (node_ids p).
  Proof.
    intros C F E. apply c_fresh in F as [-> C']. rewrite E, C', C. split; [lia|]. apply ids_ok_single. lia.
  Qed.

  Lemma idsp_p_comparison : idsp (p_comparison join_ok parse_expr).
  Proof.
    intros sc st p st' H. unfold p_comparison in H.
    apply bind_inv in H as (o & s1 & E1 & H). apply bind_inv in H as (r & s2 & E2 & H).
    apply bind_inv in H as (id & s3 & E3 & H). apply inv_ret in H as [-> ->].
    eapply leaf_ids; [|exact E3|reflexivity]. rewrite (c_p_expr _ _ _ _ E2). exact (cpres_p_cmp_op _ _ _ _ E1).
  Qed.
  Lemma idsp_p_like : idsp (p_like parse_expr).
  Proof.
    intros sc st p st' H. unfold p_like in H.
    apply bind_inv in H as (a1 & s1 & E1 & H). apply bind_inv in H as (a2 & s2 & E2 & H).
    apply bind_inv in H as (r & s3 & E3 & H). apply bind_inv in H as (id & s4 & E4 & H).
    assert (C : ctr s3 = ctr st).
    { rewrite (c_p_expr _ _ _ _ E3), (c_p_punct _ _ _ _ _ E2). exact (c_p_punct _ _ _ _ _ E1). }
    destruct (eo_str r); apply inv_ret in H as [-> ->]; (eapply leaf_ids; [exact C|exact E4|reflexivity]).
  Qed.
  Lemma idsp_p_closure_pat : idsp (p_closure_pat parse_closure).
  Proof.
    intros sc st p st' H. unfold p_closure_pat in H.
    apply bind_inv in H as (c & s1 & E1 & H). destruct (Nat.eqb (co_inputs c) 1); [|discriminate].
    apply bind_inv in H as (id & s2 & E2 & H). apply inv_ret in H as [-> ->].
    eapply leaf_ids; [exact (c_p_closure _ _ _ _ E1)|exact E2|reflexivity].
  Qed.
  Lemma idsp_p_range : idsp (p_range parse_expr).
  Proof.
    intros sc st p st' H. unfold p_range in H.
    apply bind_inv in H as (r & s1 & E1 & H). destruct (eo_range r); [|discriminate].
    apply bind_inv in H as (id & s2 & E2 & H). apply inv_ret in H as [-> ->].
    eapply leaf_ids; [exact (c_p_expr _ _ _ _ E1)|exact E2|reflexivity].
  Qed.
  Lemma idsp_p_simple : idsp (p_simple parse_expr).
  Proof.
    intros sc st p st' H. unfold p_simple in H.
    apply bind_inv in H as (r & s1 & E1 & H).
    apply bind_inv in H as (id & s2 & E2 & H). apply inv_ret in H as [-> ->].
    eapply leaf_ids; [exact (c_p_expr _ _ _ _ E1)|exact E2|reflexivity].
  Qed.
  Lemma idsp_p_wild : idsp p_wild.
  Proof.
    intros sc st p st' H. unfold p_wild in H.
    apply bind_inv in H as (ts & s1 & E1 & H). apply inv_get_toks in E1 as [-> ->].
    destruct (peek_ident "_" (toks st)); [|discriminate].
    apply bind_inv in H as (u & s2 & E2 & H). apply bind_inv in H as (id & s3 & E3 & H). apply inv_ret in H as [-> ->].
    eapply leaf_ids; [exact (c_advance _ _ _ _ _ E2)|exact E3|reflexivity].
  Qed.

  Lemma cpres_p_path : cpres p_path.  Proof. intros sc st a st' H. exact (c_p_path _ _ _ _ H). Qed.

  Lemma ids_widen_lo a a' b l : a' <= a -> a <= b /\ ids_ok a b l -> a' <= b /\ ids_ok a' b l.
  Proof. intros Ha [Hab H]. split; [lia|]. eapply ids_ok_widen; [exact H|exact Ha|lia]. Qed.

  Definition all_ids (f : nat) : Prop :=
    idsp (p_pattern f) /\ idsp (p_struct f) /\ ids_of f_fields (p_fields f) /\ idsp (p_enum f) /\ idsp (p_tuple f) /\
    (forall pos, ids_of f_elems (p_elems f pos)) /\ (forall pos, ids_of f_elem (p_indexed f pos)) /\ idsp (p_slice f) /\
    ids_of f_list (p_list f) /\ idsp (p_set f) /\ ids_of f_set (p_set_elems f) /\ idsp (p_map f) /\ ids_of f_map (p_map_entries f).

  Lemma all_ids_holds : forall f, all_ids f.
  Proof.
    induction f as [|f IH].
    { unfold all_ids; repeat match goal with |- _ /\ _ => split end; try match goal with |- forall _ : N, _ => intros pos end;
        intros sc st a st' H; discriminate. }
    destruct IH as (Ipat & Istruct & Ifields & Ienum & Ituple & Ielems & Iindexed & Islice & Ilist &
                    Iset & Isetel & Imap & Imapen).
    destruct (all_cmono_holds f) as (Mpat & _).
    destruct cmono_leaves as (_ & _ & _ & Mrange & _ & _).
    unfold all_ids. repeat match goal with |- _ /\ _ => split end; try match goal with |- forall _ : N, _ => intros pos end.
    - (* p_pattern *)
      intros sc st p st' H. cbn [Parser.p_pattern] in H.
      apply bind_inv in H as (ts & s0 & E0 & H). apply inv_get_toks in E0 as [-> ->].
      destruct (peek_punct "|" (toks st) || peek_ident "move" (toks st) && peek2 (peek_punct "|") (toks st));
        [exact (idsp_p_closure_pat _ _ _ _ H)|].
      destruct (peek_ident "_" (toks st)).
      { destruct (peek2 (peek_group DBrace) (toks st)); [exact (Istruct _ _ _ _ H)|exact (idsp_p_wild _ _ _ _ H)]. }
      destruct (peek_punct "<" (toks st) || peek_punct ">" (toks st) || peek_punct "!" (toks st));
        [exact (idsp_p_comparison _ _ _ _ H)|].
      destruct (peek_punct "=" (toks st)).
      { destruct (peek2 (peek_punct "=") (toks st)); [exact (idsp_p_comparison _ _ _ _ H)|].
        destruct (regex && peek2 (peek_punct "~") (toks st)); [exact (idsp_p_like _ _ _ _ H)|discriminate]. }
      destruct (peek_punct "#" (toks st) && peek2 (peek_group DParen) (toks st)); [exact (Iset _ _ _ _ H)|].
      destruct (peek_punct "#" (toks st) && peek2 (peek_group DBrace) (toks st)); [exact (Imap _ _ _ _ H)|].
      destruct (peek_group DBracket (toks st)); [exact (Islice _ _ _ _ H)|].
      destruct (peek_group DParen (toks st)); [exact (Ituple _ _ _ _ H)|].
      apply bind_inv in H as (pk & s1 & E1 & H). apply c_fork in E1 as C1; [|apply cmono_p_path].
      destruct pk as [[pkp after]|].
      { apply (ids_widen_lo (ctr s1)); [exact C1|].
        destruct (peek_group DBrace after); [exact (Istruct _ _ _ _ H)|exact (Ienum _ _ _ _ H)]. }
      apply bind_inv in H as (rk & s2 & E2 & H). apply c_fork in E2 as C2; [|exact Mrange].
      apply (ids_widen_lo (ctr s2)); [lia|].
      destruct rk; [exact (idsp_p_range _ _ _ _ H)|].
      apply bind_inv in H as (now & s3 & E3 & H). apply inv_get_toks in E3 as [-> ->].
      destruct (toks s2) as [|t r]; [exact (idsp_p_simple _ _ _ _ H)|].
      destruct t as [| |k text sp|]; try exact (idsp_p_simple _ _ _ _ H).
      destruct k as [v| | |]; try exact (idsp_p_simple _ _ _ _ H).
      apply bind_inv in H as (u & s4 & E4 & H). apply bind_inv in H as (id & s5 & E5 & H). apply inv_ret in H as [-> ->].
      eapply leaf_ids; [exact (c_advance _ _ _ _ _ E4)|exact E5|reflexivity].
    - (* p_struct *)
      intros sc st p st' H. cbn [Parser.p_struct] in H.
      apply bind_inv in H as (id & s1 & E1 & H). apply c_fresh in E1 as [-> C1].
      apply bind_inv in H as (ts & s2 & E2 & H). apply inv_get_toks in E2 as [-> ->].
      apply bind_inv in H as (hd & s3 & E3 & H).
      assert (C3 : ctr s3 = ctr s1).
      { destruct (toks s1) as [|t r].
        - apply bind_inv in E3 as (path & s5 & E5 & E3). apply inv_ret in E3 as [-> ->]. exact (c_p_path _ _ _ _ E5).
        - destruct t as [s usp| | |];
            [destruct (String.eqb s "_");
             [apply bind_inv in E3 as (u & s5 & E5 & E3); apply inv_ret in E3 as [-> ->]; exact (c_advance _ _ _ _ _ E5)|]| | |];
            apply bind_inv in E3 as (path & s5 & E5 & E3); apply inv_ret in E3 as [-> ->]; exact (c_p_path _ _ _ _ E5). }
      apply bind_inv in H as (g & s4 & E4 & H).
      apply c_in_group in E4 as (spc & inner & stb & Eb & C4).
      destruct g as [[[gsp gspo] gspc] [fields rest]]. cbn [snd] in Eb.
      destruct (Ifields _ _ _ _ Eb) as [Cb Ib]. cbn [ctr] in Cb, Ib. unfold f_fields in Ib. cbn [fst] in Ib.
      assert (Hfin : s4 = st' /\ node_ids p = flat_map (fun fp => node_ids (snd fp)) fields ++ [ctr st]).
      { destruct (fst hd), rest; try (apply inv_ret in H as [-> ->]; split; reflexivity).
        destruct (snd hd); discriminate. }
      destruct Hfin as [-> Hp]. rewrite Hp, C4.
      split; [lia|]. apply (ids_ok_app_rev (ctr st) (N.succ (ctr st)) (ctr stb)).
      + rewrite <- C1, <- C3. exact Ib.
      + apply ids_ok_single. lia.
      + lia.
      + lia.
    - (* p_fields *)
      intros sc st r st' H. cbn [Parser.p_fields] in H.
      apply bind_inv in H as (e & s1 & E1 & H). apply inv_is_empty in E1 as [-> ->].
      destruct (match toks st with [] => true | _ => false end).
      { apply inv_ret in H as [-> ->]. split; [lia|apply ids_ok_nil]. }
      apply bind_inv in H as (d & s1 & E1 & H). apply inv_peek in E1 as [-> ->].
      destruct (peek_punct ".." (toks st)).
      { apply bind_inv in H as (u & s2 & E2 & H). apply inv_ret in H as [-> ->].
        rewrite (c_p_punct _ _ _ _ _ E2). split; [lia|apply ids_ok_nil]. }
      apply bind_inv in H as (ops & s2 & E2 & H). apply cpres_p_field_operation in E2 as C2.
      apply bind_inv in H as (u & s3 & E3 & H). apply c_p_punct in E3 as C3.
      apply bind_inv in H as (p & s4 & E4 & H). destruct (Ipat _ _ _ _ E4) as [C4 I4].
      apply bind_inv in H as (e2 & s5 & E5 & H). apply inv_is_empty in E5 as [-> ->].
      rewrite C3, C2 in C4, I4.
      destruct (match toks s4 with [] => true | _ => false end).
      { apply inv_ret in H as [-> ->]. split; [exact C4|]. unfold f_fields. cbn. rewrite app_nil_r. exact I4. }
      apply bind_inv in H as (u2 & s5 & E5 & H). apply c_p_punct in E5 as C5.
      apply bind_inv in H as (d2 & s6 & E6 & H). apply inv_peek in E6 as [-> ->].
      destruct (peek_punct ".." (toks s5)).
      { apply bind_inv in H as (u3 & s6 & E6 & H). apply inv_ret in H as [-> ->].
        rewrite (c_p_punct _ _ _ _ _ E6), C5. split; [exact C4|]. unfold f_fields. cbn. rewrite app_nil_r. exact I4. }
      apply bind_inv in H as (more & s6 & E6 & H). apply inv_ret in H as [-> ->].
      destruct (Ifields _ _ _ _ E6) as [C6 I6]. rewrite C5 in C6, I6.
      split; [lia|]. unfold f_fields in *. cbn [fst flat_map snd].
      eapply ids_ok_app; [exact I4|exact I6|exact C4|exact C6].
    - (* p_enum *)
      intros sc st p st' H. cbn [Parser.p_enum] in H.
      apply bind_inv in H as (path & s1 & E1 & H). apply c_p_path in E1 as C1.
      apply bind_inv in H as (paren & s2 & E2 & H). apply inv_peek in E2 as [-> ->].
      apply bind_inv in H as (elems & s3 & E3 & H).
      apply bind_inv in H as (id & s4 & E4 & H). apply inv_ret in H as [-> ->]. apply c_fresh in E4 as [-> C4].
      assert (R : ctr s1 <= ctr s3 /\ ids_ok (ctr s1) (ctr s3) (f_elems elems)).
      { destruct (peek_group DParen (toks s1)).
        - apply bind_inv in E3 as (g & s5 & E5 & E3). apply inv_ret in E3 as [-> ->].
          apply c_in_group in E5 as (spc & inner & stb & Eb & C5). rewrite C5.
          exact (Ielems 0 _ _ _ _ Eb).
        - apply inv_ret in E3 as [-> ->]. split; [lia|apply ids_ok_nil]. }
      destruct R as [C3 I3]. rewrite C1 in C3, I3. rewrite C4. split; [lia|].
      cbn [node_ids]. apply (ids_ok_app (ctr st) (ctr s3) (N.succ (ctr s3))); [exact I3|apply ids_ok_single; lia|exact C3|lia].
    - (* p_tuple *)
      intros sc st p st' H. cbn [Parser.p_tuple] in H.
      apply bind_inv in H as (g & s1 & E1 & H). apply c_in_group in E1 as (spc & inner & stb & Eb & C1).
      destruct g as [[[gsp gspo] gspc] elems]. cbn [snd] in Eb.
      apply bind_inv in H as (id & s2 & E2 & H). apply inv_ret in H as [-> ->]. apply c_fresh in E2 as [-> C2].
      destruct (Ielems 0 _ _ _ _ Eb) as [Cb Ib]. cbn [ctr] in Cb, Ib.
      rewrite C2, C1. split; [lia|]. cbn [node_ids].
      apply (ids_ok_app (ctr st) (ctr stb) (N.succ (ctr stb))); [exact Ib|apply ids_ok_single; lia|exact Cb|lia].
    - (* p_elems *)
      intros sc st r st' H. cbn [Parser.p_elems] in H.
      apply bind_inv in H as (e & s1 & E1 & H). apply inv_is_empty in E1 as [-> ->].
      destruct (match toks st with [] => true | _ => false end).
      { apply inv_ret in H as [-> ->]. split; [lia|apply ids_ok_nil]. }
      apply bind_inv in H as (fk & s1 & E1 & H). apply c_fork in E1 as C1; [|exact Mpat].
      apply bind_inv in H as (el & s2 & E2 & H).
      assert (R : ctr s1 <= ctr s2 /\ ids_ok (ctr s1) (ctr s2) (f_elem el)).
      { destruct fk as [[fkp after]|]; [|exact (Iindexed pos _ _ _ _ E2)].
        destruct (negb (peek_punct ":" after)); [|exact (Iindexed pos _ _ _ _ E2)].
        apply bind_inv in E2 as (p & s5 & E5 & E2). apply inv_ret in E2 as [-> ->]. exact (Ipat _ _ _ _ E5). }
      destruct R as [C2 I2].
      apply bind_inv in H as (e2 & s3 & E3 & H). apply inv_is_empty in E3 as [-> ->].
      apply bind_inv in H as (u & s3 & E3 & H).
      assert (C3 : ctr s3 = ctr s2).
      { destruct (match toks s2 with [] => true | _ => false end).
        - apply inv_ret in E3 as [_ ->]. reflexivity.
        - apply bind_inv in E3 as (sps & s5 & E5 & E3). apply inv_ret in E3 as [_ ->]. exact (c_p_punct _ _ _ _ _ E5). }
      apply bind_inv in H as (more & s4 & E4 & H). apply inv_ret in H as [-> ->].
      destruct (Ielems (N.succ pos) _ _ _ _ E4) as [C4 I4]. rewrite C3 in C4, I4.
      split; [lia|]. unfold f_elems in *. cbn [flat_map].
      eapply ids_ok_app; [|exact I4|lia|exact C4].
      eapply ids_ok_widen; [exact I2|exact C1|lia].
    - (* p_indexed *)
      intros sc st el st' H. cbn [Parser.p_indexed] in H.
      apply bind_inv in H as (ops & s1 & E1 & H). apply cpres_p_field_operation in E1 as C1.
      destruct (root_is ops pos) as [[|]|]; try discriminate.
      apply bind_inv in H as (u & s2 & E2 & H). apply c_p_punct in E2 as C2.
      apply bind_inv in H as (p & s3 & E3 & H). apply inv_ret in H as [-> ->].
      destruct (Ipat _ _ _ _ E3) as [C3 I3]. rewrite C2, C1 in C3, I3. split; [exact C3|exact I3].
    - (* p_slice *)
      intros sc st p st' H. cbn [Parser.p_slice] in H.
      apply bind_inv in H as (g & s1 & E1 & H). apply c_in_group in E1 as (spc & inner & stb & Eb & C1).
      destruct g as [[[gsp gspo] gspc] elems]. cbn [snd] in Eb.
      apply bind_inv in H as (id & s2 & E2 & H). apply inv_ret in H as [-> ->]. apply c_fresh in E2 as [-> C2].
      destruct (Ilist _ _ _ _ Eb) as [Cb Ib]. cbn [ctr] in Cb, Ib.
      rewrite C2, C1. split; [lia|]. cbn [node_ids].
      apply (ids_ok_app (ctr st) (ctr stb) (N.succ (ctr stb))); [exact Ib|apply ids_ok_single; lia|exact Cb|lia].
    - (* p_list *)
      intros sc st r st' H. cbn [Parser.p_list] in H.
      apply bind_inv in H as (e & s1 & E1 & H). apply inv_is_empty in E1 as [-> ->].
      destruct (match toks st with [] => true | _ => false end).
      { apply inv_ret in H as [-> ->]. split; [lia|apply ids_ok_nil]. }
      apply bind_inv in H as (p & s2 & E2 & H). destruct (Ipat _ _ _ _ E2) as [C2 I2].
      apply bind_inv in H as (e2 & s3 & E3 & H). apply inv_is_empty in E3 as [-> ->].
      apply bind_inv in H as (u & s3 & E3 & H).
      assert (C3 : ctr s3 = ctr s2).
      { destruct (match toks s2 with [] => true | _ => false end).
        - apply inv_ret in E3 as [_ ->]. reflexivity.
        - apply bind_inv in E3 as (sps & s5 & E5 & E3). apply inv_ret in E3 as [_ ->]. exact (c_p_punct _ _ _ _ _ E5). }
      apply bind_inv in H as (more & s4 & E4 & H). apply inv_ret in H as [-> ->].
      destruct (Ilist _ _ _ _ E4) as [C4 I4]. rewrite C3 in C4, I4.
      split; [lia|]. unfold f_list in *. cbn [flat_map].
      destruct (is_rest_range p).
      + cbn [app]. eapply ids_ok_widen; [exact I4|exact C2|lia].
      + eapply ids_ok_app; [exact I2|exact I4|exact C2|exact C4].
    - (* p_set *)
      intros sc st p st' H. cbn [Parser.p_set] in H.
      apply bind_inv in H as (hash & s0 & E0 & H). apply c_p_punct in E0 as C0.
      apply bind_inv in H as (g & s1 & E1 & H). apply c_in_group in E1 as (spc & inner & stb & Eb & C1).
      destruct g as [[[gsp gspo] gspc] [elems rest]]. cbn [snd] in Eb.
      apply bind_inv in H as (id & s2 & E2 & H). apply inv_ret in H as [-> ->]. apply c_fresh in E2 as [-> C2].
      destruct (Isetel _ _ _ _ Eb) as [Cb Ib]. cbn [ctr] in Cb, Ib. unfold f_set in Ib. cbn [fst] in Ib. rewrite C0 in Cb, Ib.
      rewrite C2, C1. split; [lia|]. cbn [node_ids].
      apply (ids_ok_app (ctr st) (ctr stb) (N.succ (ctr stb))); [exact Ib|apply ids_ok_single; lia|exact Cb|lia].
    - (* p_set_elems *)
      intros sc st r st' H. cbn [Parser.p_set_elems] in H.
      apply bind_inv in H as (e & s1 & E1 & H). apply inv_is_empty in E1 as [-> ->].
      destruct (match toks st with [] => true | _ => false end).
      { apply inv_ret in H as [-> ->]. split; [lia|apply ids_ok_nil]. }
      apply bind_inv in H as (d & s1 & E1 & H). apply inv_peek in E1 as [-> ->].
      destruct (peek_rest (toks st)).
      { apply bind_inv in H as (u & s2 & E2 & H). apply c_p_punct in E2 as C2.
        apply bind_inv in H as (c & s3 & E3 & H). apply inv_peek in E3 as [-> ->].
        apply bind_inv in H as (u2 & s3 & E3 & H). apply inv_ret in H as [-> ->].
        assert (C3 : ctr s3 = ctr s2).
        { destruct (peek_punct "," (toks s2)).
          - apply bind_inv in E3 as (sps & s4 & E4 & E3). apply inv_ret in E3 as [_ ->]. exact (c_p_punct _ _ _ _ _ E4).
          - apply inv_ret in E3 as [_ ->]. reflexivity. }
        rewrite C3, C2. split; [lia|apply ids_ok_nil]. }
      apply bind_inv in H as (p & s2 & E2 & H). destruct (Ipat _ _ _ _ E2) as [C2 I2].
      apply bind_inv in H as (e2 & s3 & E3 & H). apply inv_is_empty in E3 as [-> ->].
      destruct (match toks s2 with [] => true | _ => false end).
      { apply inv_ret in H as [-> ->]. split; [exact C2|]. unfold f_set. cbn. rewrite app_nil_r. exact I2. }
      apply bind_inv in H as (u2 & s3 & E3 & H). apply c_p_punct in E3 as C3.
      apply bind_inv in H as (d2 & s4 & E4 & H). apply inv_peek in E4 as [-> ->].
      destruct (peek_rest (toks s3)).
      { apply bind_inv in H as (u3 & s4 & E4 & H). apply inv_ret in H as [-> ->].
        rewrite (c_p_punct _ _ _ _ _ E4), C3. split; [exact C2|]. unfold f_set. cbn. rewrite app_nil_r. exact I2. }
      apply bind_inv in H as (more & s4 & E4 & H). apply inv_ret in H as [-> ->].
      destruct (Isetel _ _ _ _ E4) as [C4 I4]. rewrite C3 in C4, I4.
      split; [lia|]. unfold f_set in *. cbn [fst flat_map].
      eapply ids_ok_app; [exact I2|exact I4|exact C2|exact C4].
    - (* p_map *)
      intros sc st p st' H. cbn [Parser.p_map] in H.
      apply bind_inv in H as (hash & s0 & E0 & H). apply c_p_punct in E0 as C0.
      apply bind_inv in H as (g & s1 & E1 & H). apply c_in_group in E1 as (spc & inner & stb & Eb & C1).
      destruct g as [[[gsp gspo] gspc] [entries rest]]. cbn [snd] in Eb.
      apply bind_inv in H as (id & s2 & E2 & H). apply inv_ret in H as [-> ->]. apply c_fresh in E2 as [-> C2].
      destruct (Imapen _ _ _ _ Eb) as [Cb Ib]. cbn [ctr] in Cb, Ib. unfold f_map in Ib. cbn [fst] in Ib. rewrite C0 in Cb, Ib.
      rewrite C2, C1. split; [lia|]. cbn [node_ids].
      apply (ids_ok_app (ctr st) (ctr stb) (N.succ (ctr stb))); [exact Ib|apply ids_ok_single; lia|exact Cb|lia].
    - (* p_map_entries *)
      intros sc st r st' H. cbn [Parser.p_map_entries] in H.
      apply bind_inv in H as (e & s1 & E1 & H). apply inv_is_empty in E1 as [-> ->].
      destruct (match toks st with [] => true | _ => false end).
      { apply inv_ret in H as [-> ->]. split; [lia|apply ids_ok_nil]. }
      apply bind_inv in H as (d & s1 & E1 & H). apply inv_peek in E1 as [-> ->].
      destruct (peek_punct ".." (toks st)).
      { apply bind_inv in H as (u & s2 & E2 & H). apply inv_ret in H as [-> ->].
        rewrite (c_p_punct _ _ _ _ _ E2). split; [lia|apply ids_ok_nil]. }
      apply bind_inv in H as (k & s2 & E2 & H). apply c_p_expr in E2 as C2.
      apply bind_inv in H as (u & s3 & E3 & H). apply c_p_punct in E3 as C3.
      apply bind_inv in H as (p & s4 & E4 & H). destruct (Ipat _ _ _ _ E4) as [C4 I4].
      apply bind_inv in H as (e2 & s5 & E5 & H). apply inv_is_empty in E5 as [-> ->].
      rewrite C3, C2 in C4, I4.
      destruct (match toks s4 with [] => true | _ => false end).
      { apply inv_ret in H as [-> ->]. split; [exact C4|]. unfold f_map. cbn. rewrite app_nil_r. exact I4. }
      apply bind_inv in H as (u2 & s5 & E5 & H). apply c_p_punct in E5 as C5.
      apply bind_inv in H as (d2 & s6 & E6 & H). apply inv_peek in E6 as [-> ->].
      destruct (peek_punct ".." (toks s5)).
      { apply bind_inv in H as (u3 & s6 & E6 & H). apply inv_ret in H as [-> ->].
        rewrite (c_p_punct _ _ _ _ _ E6), C5. split; [exact C4|]. unfold f_map. cbn. rewrite app_nil_r. exact I4. }
      apply bind_inv in H as (more & s6 & E6 & H). apply inv_ret in H as [-> ->].
      destruct (Imapen _ _ _ _ E6) as [C6 I6]. rewrite C5 in C6, I6.
      split; [lia|]. unfold f_map in *. cbn [fst flat_map snd].
      eapply ids_ok_app; [exact I4|exact I6|exact C4|exact C6].
  Qed.

  Notation parse_top_from := (parse_top_from regex join_ok parse_expr parse_path parse_closure).

  (* every node of an accepted tree has its own id *)
  Theorem parsed_ids_distinct fuel start ts v p : parse_top_from fuel start ts = TOk v p -> NoDup (node_ids p).
  Proof.
    intros H. apply top_rejects in H as (st' & H & _ & _).
    apply bind_inv in H as (r & s1 & E1 & H). apply bind_inv in H as (u & s2 & E2 & H).
    apply bind_inv in H as (q & s3 & E3 & H). apply inv_ret in H as [Hq ->]. inversion Hq; subst.
    exact (proj1 (proj2 (proj1 (all_ids_holds fuel) _ _ _ _ E3))).
  Qed.

  (* the thread-local counter is reset at the start of every invocation: the result does not depend on
     what earlier invocations (accepted, rejected, or abandoned inside a speculative parse) left in it *)
  Theorem parse_top_history_independent fuel c1 c2 ts : parse_top_from fuel c1 ts = parse_top_from fuel c2 ts.
  Proof. reflexivity. Qed.

  (* one PatternNode constant per node, no id defined twice *)
  Theorem node_constants_distinct fuel start ts v p parent :
    parse_top_from fuel start ts = TOk v p -> NoDup (map n_id (gen_nodes join_ok p parent)).
  Proof. intros H. rewrite gen_nodes_ids. exact (parsed_ids_distinct _ _ _ _ _ H). Qed.

  Theorem front_end_history_independent c1 c2 ts :
    front_end_from regex join_ok parse_expr parse_path parse_closure c1 ts =
    front_end_from regex join_ok parse_expr parse_path parse_closure c2 ts.
  Proof. reflexivity. Qed.
End IdsP.
