(* EndToEndP.v — the macro as one function from tokens to behaviour: parser, expander and
   the semantics of the generated code composed.  For every token list the macro accepts, the
   code it generates reports exactly the frontier of the PARSED pattern on the asserted value;
   the parsed pattern derives from those very tokens in the grammar (GrammarP.v). *)
From ASModel Require Import Base Tokens Report Ast IR Expand SetMatch Values Nodes Sem Spec Parser FrontEnd Grammar.
From ASProofs Require Import SemP CorollariesP ParserP GrammarP.

Section EndToEnd.
  Variable regex join_ok : bool.
  Variable parse_expr : list ttree -> ores expr_ok.
  Variable parse_path : list ttree -> ores path_ok.
  Variable parse_closure : list ttree -> ores closure_ok.

  Notation front_end_from := (front_end_from regex join_ok parse_expr parse_path parse_closure).

  Lemma front_end_ok_inv start ts v p code :
    front_end_from start ts = FEOk v p code ->
    parse_top_from regex join_ok parse_expr parse_path parse_closure (fuel_for ts) start ts = TOk v p /\
    code = expand join_ok p (VRoot (u_toks v)).
  Proof.
    unfold FrontEnd.front_end_from.
    destruct (parse_top_from regex join_ok parse_expr parse_path parse_closure (fuel_for ts) start ts) as [v' p'|sp|s|] eqn:E;
      try discriminate.
    destruct (stmt_panics _); [discriminate|]. intros H; inversion H; subst. split; reflexivity.
  Qed.

  (* tokens in, verdict and report out *)
  Theorem macro_reports_the_frontier start ts v p code en val t fr :
    front_end_from start ts = FEOk v p code ->
    SemP.pat_ok (e_units en) p = true ->
    eval en (VRoot (u_toks v)) = Some (val, t) ->
    frontier (e_caller en) (e_units en) p val = Some fr ->
    G_top regex parse_expr parse_path parse_closure ts v p /\
    exists tr, exec code en = Some (fr, tr).
  Proof.
    intros H Hok He Hf. apply front_end_ok_inv in H as [Hp ->]. split.
    - eapply parse_top_sound. exact Hp.
    - eapply exec_expand_frontier; eassumption.
  Qed.

  Theorem macro_pass_implies_sat start ts v p code en val t fr :
    front_end_from start ts = FEOk v p code ->
    SemP.pat_ok (e_units en) p = true ->
    eval en (VRoot (u_toks v)) = Some (val, t) ->
    frontier (e_caller en) (e_units en) p val = Some fr ->
    report_of (exec code en) = Some [] ->
    sat (e_caller en) (e_units en) p val.
  Proof.
    intros H Hok He Hf Hr. apply front_end_ok_inv in H as [_ ->]. eapply pass_implies_sat; eassumption.
  Qed.

  (* the same for the whole assertion as fn expand arranges it (Sem.exec_top: a root `_` evaluates the asserted expression
     and asserts nothing; every other root pattern is its own expansion) *)
  Theorem macro_assertion_reports_the_frontier start ts v p code en val t fr :
    front_end_from start ts = FEOk v p code ->
    SemP.pat_ok (e_units en) p = true ->
    eval en (VRoot (u_toks v)) = Some (val, t) ->
    frontier (e_caller en) (e_units en) p val = Some fr ->
    exists tr, exec_top join_ok p (u_toks v) en = Some (fr, tr).
  Proof.
    intros H Hok He Hf. unfold exec_top. destruct (is_wild p) eqn:Ew.
    - destruct p; try discriminate. cbn [frontier] in Hf. inversion Hf; subst. cbn [eval]. eexists; reflexivity.
    - apply front_end_ok_inv in H as [_ _]. eapply exec_expand_frontier; eassumption.
  Qed.
End EndToEnd.
