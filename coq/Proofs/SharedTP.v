(* Proofs about Model/SharedT.v: the source cache over a file system whose readability changes with time. *)
From ASModel Require Import Base Shared SharedT.
From ASProofs Require Import SharedP.

Section TimedCacheP.
  Variable content : string -> string.
  Variable readable : nat -> string -> bool.

  (* everything cached, about to be inserted or returned is the text of the caller's own file *)
  Definition tcache_ok (c : cache) : Prop := forall p s, cache_get p c = Some s -> s = content p.
  Definition tcall_ok (k : call) : Prop :=
    match c_pc k with
    | PInsert s => s = content (c_path k)
    | PDone (Some s) => s = content (c_path k)
    | _ => True
    end.
  Definition tinv (st : cache * list call) : Prop := tcache_ok (fst st) /\ Forall tcall_ok (snd st).

  Lemma tstep_call_inv t c k : tcache_ok c -> tcall_ok k ->
    tcache_ok (fst (step_call (fs_at content readable t) c k)) /\ tcall_ok (snd (step_call (fs_at content readable t) c k)).
  Proof.
    intros Hc Hk. unfold step_call, fs_at. destruct (c_pc k) as [| |s|r] eqn:E.
    - destruct (cache_get (c_path k) c) as [s|] eqn:G; cbn; split; auto; unfold tcall_ok; cbn; auto.
    - destruct (readable t (c_path k)); cbn; split; auto; unfold tcall_ok; cbn; auto.
    - unfold tcall_ok in Hk. rewrite E in Hk. cbn. split.
      + destruct (cache_get (c_path k) c) eqn:G; [exact Hc|].
        intros p s' H. cbn in H. destruct (String.eqb p (c_path k)) eqn:Ep; [|apply Hc; exact H].
        apply String.eqb_eq in Ep. subst p. inversion H; subst. reflexivity.
      + unfold tcall_ok; cbn. exact Hk.
    - cbn. split; auto.
  Qed.

  Lemma tstep_inv t st i : tinv st -> tinv (step (fs_at content readable t) st i).
  Proof.
    intros (Hc & Hk). unfold step. destruct (nth_error (snd st) i) as [k|] eqn:E; [|split; assumption].
    assert (Hkk : tcall_ok k) by (eapply Forall_forall; [exact Hk|eapply nth_error_In; exact E]).
    destruct (tstep_call_inv t (fst st) k Hc Hkk) as (H1 & H2).
    destruct (step_call (fs_at content readable t) (fst st) k) as [c' k']. cbn in *.
    split; [exact H1|]. apply Forall_update; assumption.
  Qed.

  (* under ANY interleaving and ANY history of the files' readability: no cross-talk, and nothing but the file's own text is ever
     cached or returned *)
  Theorem timed_cache_inv : forall schedule t st, tinv st -> tinv (run_from content readable t st schedule).
  Proof.
    induction schedule as [|i r IH]; intros t st H; cbn; [exact H|]. apply IH. apply tstep_inv. exact H.
  Qed.

  (* a failed read leaves no trace: the cache after it is the cache before it *)
  Theorem failed_read_is_not_remembered t c p :
    readable t p = false ->
    step_call (fs_at content readable t) c {| c_path := p; c_pc := PRead |} = (c, {| c_path := p; c_pc := PDone None |}).
  Proof. intros H. unfold step_call, fs_at. cbn. rewrite H. reflexivity. Qed.

  (* a failure reported alone while its file can be read gets the file's text, WHATEVER happened before (the cache may hold anything
     that satisfies the invariant: in particular earlier reports of the same file made while it could not be read left nothing) *)
  Theorem report_while_readable t c p :
    tcache_ok c -> readable (S t) p = true ->
    snd (report_at content readable t c p) = Some (content p).
  Proof.
    intros Hc Hr. unfold report_at, step_call at 1. cbn [c_pc c_path].
    destruct (cache_get p c) as [s|] eqn:G.
    - cbn. rewrite (Hc p s G). reflexivity.
    - unfold step_call at 1. cbn [c_pc c_path]. unfold fs_at at 1. rewrite Hr.
      unfold step_call. cbn [c_pc c_path]. rewrite G. reflexivity.
  Qed.

  (* ... and while it cannot be read: the text if an earlier report cached it, otherwise nothing (the fallback listing) *)
  Theorem report_while_unreadable t c p :
    readable (S t) p = false ->
    snd (report_at content readable t c p) = cache_get p c.
  Proof.
    intros Hr. unfold report_at, step_call at 1. cbn [c_pc c_path].
    destruct (cache_get p c) as [s|] eqn:G; [reflexivity|].
    unfold step_call at 1. cbn [c_pc c_path]. unfold fs_at at 1. rewrite Hr. reflexivity.
  Qed.

  Lemma report_keeps_inv t c p : tcache_ok c -> tcache_ok (fst (report_at content readable t c p)).
  Proof.
    intros Hc. unfold report_at.
    pose proof (tstep_call_inv t c {| c_path := p; c_pc := PStart |} Hc I) as H1.
    destruct (step_call (fs_at content readable t) c {| c_path := p; c_pc := PStart |}) as [c1 k1]. destruct H1 as (H1 & K1).
    pose proof (tstep_call_inv (S t) c1 k1 H1 K1) as H2.
    destruct (step_call (fs_at content readable (S t)) c1 k1) as [c2 k2]. destruct H2 as (H2 & K2).
    pose proof (tstep_call_inv (S (S t)) c2 k2 H2 K2) as H3.
    destruct (step_call (fs_at content readable (S (S t))) c2 k2) as [c3 k3]. destruct H3 as (H3 & _). exact H3.
  Qed.

  (* the whole history of one thread: every report made at a time its file can be read is that file's text *)
  Theorem history_reports : forall ops t c i p,
    tcache_ok c -> nth_error ops i = Some p -> readable (S (3 * i + t)) p = true ->
    nth_error (reports_from content readable t c ops) i = Some (Some (content p)).
  Proof.
    induction ops as [|q r IH]; intros t c i p Hc Hn Hr; [destruct i; discriminate|].
    cbn [reports_from]. destruct (report_at content readable t c q) as [c' res] eqn:E.
    destruct i as [|j].
    - cbn in Hn. inversion Hn; subst q. cbn. f_equal.
      replace res with (snd (report_at content readable t c p)) by (rewrite E; reflexivity).
      apply report_while_readable; [exact Hc|]. replace (3 * 0 + t) with t in Hr by lia. exact Hr.
    - cbn in Hn. cbn [nth_error]. apply IH; [|exact Hn|].
      + replace c' with (fst (report_at content readable t c q)) by (rewrite E; reflexivity). apply report_keeps_inv. exact Hc.
      + replace (S (3 * j + (3 + t))) with (S (3 * S j + t)) by lia. exact Hr.
  Qed.
End TimedCacheP.
