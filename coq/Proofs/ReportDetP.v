(* ReportDetP.v — C17 composed with the Display model: what a thread finally formats is a function of its own source file,
   the renderer choice and its own entries, whatever the other threads do and whatever was formatted before. *)
From ASModel Require Import Base SrcLoc Report Display Shared.
From ASProofs Require Import SharedP DisplayP.

Section ReportDet.
  Variable fs : string -> option string.        (* the file system: read_to_string *)
  Variable decode : string -> text.             (* the file content as code points *)

  (* the report of a finished call of cached_source followed by Display *)
  Definition rendered_of (k : call) (st_styled : bool) (rel : string) (es : list rentry) : option rendered :=
    match c_pc k with
    | PDone r => Some (display st_styled rel (option_map decode r) es)
    | _ => None
    end.

  Theorem report_determined_by_source_choice_and_entries : forall schedule c0 calls i k st_styled rel es out,
    cache_ok fs c0 -> Forall (fun k => c_pc k = PStart) calls ->
    nth_error (snd (run fs (c0, calls) schedule)) i = Some k ->
    rendered_of k st_styled rel es = Some out ->
    out = display st_styled rel (option_map decode (fs (c_path k))) es.
  Proof.
    intros schedule c0 calls i k st rel es out Hc Hs Hn Hr. unfold rendered_of in Hr.
    destruct (c_pc k) as [| | |r] eqn:E; try discriminate. inversion Hr; subst.
    rewrite (no_crosstalk fs schedule c0 calls k i Hc Hs Hn r E). reflexivity.
  Qed.
End ReportDet.
