(* SemP.v — the master lemma: executing the expansion of a pattern on a value
   yields exactly the specification's failure frontier (Properties C01, C02, C03,
   C05 and the verdict half of C11 are corollaries). *)
From ASModel Require Import Base Tokens Report Ast IR Expand SetMatch Values Nodes Sem Spec.
From ASProofs Require Import PatInd SetMatchP.

(* ---- the specification looks through a reference ------------------------- *)

Lemma peel_ref v : peel (VRefV v) = peel v. Proof. reflexivity. Qed.
Lemma auto_deref_ref v : auto_deref (VRefV v) = auto_deref v. Proof. reflexivity. Qed.

Lemma frontier_ref : forall c u p v, frontier c u p (VRefV v) = frontier c u p v.
Proof. intros c u p v. destruct p; reflexivity. Qed.

(* ---- well-formed field operations (what the parser produces) -------------- *)

Definition atomic_nonderef (o : fop) : bool :=
  match o with ODeref _ _ | OChained _ _ => false | _ => true end.

(* the operations left after removing the root field access: an optional leading
   dereference followed by plain steps *)
Definition tail_wf (t : fop) : bool :=
  match t with
  | ODeref _ _ => true
  | OChained _ [] => false
  | OChained _ (ODeref _ _ :: r) => forallb atomic_nonderef r
  | OChained _ r => forallb atomic_nonderef r
  | _ => true
  end.

Definition tail_derefs (t : fop) : bool :=
  match t with
  | ODeref _ _ | OChained _ (ODeref _ _ :: _) => true
  | _ => false
  end.

(* ops_ok wild o: o is parser-shaped, its indices fit in u32 and — inside a wildcard
   struct (wild = true) — it does not dereference (known finding: there `*` strips
   one layer more than in a named struct) *)
Definition ops_ok (wild : bool) (o : fop) : bool :=
  match root_field_name o with
  | Some f => field_name_index_ok f
  | None => false
  end &&
  match tail_operations o with
  | TailSome t => tail_wf t && ops_index_ok t && negb (wild && tail_derefs t)
  | TailNone => true
  | TailPanic => false
  end.

(* an identifier (or zero-argument path) written as a value that names no unit variant or
   constant: the expansion's matches!(v, ident) binds it and always succeeds (known finding) *)
Definition is_binding_ident (u : list string) (path : rpath) : bool :=
  path_single path &&
  match path_last path with Some nm => negb (existsb (String.eqb nm) u) | None => false end.

Fixpoint pat_ok (u : list string) (p : pat) : bool :=
  match p with
  | PStruct _ path _ fields =>
      forallb (fun fp => ops_ok (match path with None => true | Some _ => false end) (fst fp) && pat_ok u (snd fp)) fields
  | PEnum _ path [] => negb (is_binding_ident u path)
  | PEnum _ _ elems | PTuple _ _ elems =>
      forallb (fun el => match fst el with Some o => ops_ok false o | None => true end && pat_ok u (snd el)) elems
  | PSlice _ _ elems | PSet _ _ _ elems => forallb (pat_ok u) elems
  | PMap _ _ _ entries => forallb (fun kv => pat_ok u (snd kv)) entries
  | _ => true
  end.

(* ---- leaves -------------------------------------------------------------- *)

Lemma test_leaf en e v t id ok x sp xe fr :
  eval en e = Some (v, t) -> expected_text xe = x ->
  leaf id ok v x = Some fr ->
  exists tr, test en ok t (mk_push sp id (ADebug e) xe) None = Some (fr, tr).
Proof.
  intros He Hx Hl. unfold leaf in Hl. unfold test.
  destruct ok as [[|]|]; inversion Hl; subst; clear Hl.
  - eexists; reflexivity.
  - unfold do_push, mk_push; cbn [ps_actual ps_node ps_expected]. rewrite He. cbn. eexists; reflexivity.
Qed.

(* a shape mismatch entry: the `_ =>` arm of a composite *)
Lemma test_shape en e v t id sp :
  eval en e = Some (v, t) ->
  exists tr, test en (Some false) t (mk_push sp id (ADebug e) ENone) None
             = Some ([mk_entry id (TDebug (peel v)) None], tr).
Proof.
  intros He. unfold test, do_push, mk_push; cbn [ps_actual ps_node ps_expected]. rewrite He. cbn. eexists; reflexivity.
Qed.

(* ---- evaluation of field operations agrees with the specification ---------- *)

Fixpoint strip_n_r (n : nat) (v : value) : option value :=
  match n with
  | O => Some v
  | S k => match strip_n_r k v with Some w => strip1 w | None => None end
  end.

Lemma strip_n_r_S : forall n w,
  strip_n_r (S n) w = match strip1 w with Some w1 => strip_n_r n w1 | None => None end.
Proof.
  induction n as [|n IH]; intros w.
  - cbn. destruct (strip1 w); reflexivity.
  - change (strip_n_r (S (S n)) w) with (match strip_n_r (S n) w with Some w' => strip1 w' | None => None end).
    rewrite IH. destruct (strip1 w) as [w1|]; reflexivity.
Qed.

Lemma strip_n_eq : forall n w, strip_n n w = strip_n_r n w.
Proof.
  induction n as [|n IH]; intros w; [reflexivity|].
  rewrite strip_n_r_S. cbn [strip_n]. destruct (strip1 w) as [w1|]; [apply IH|reflexivity].
Qed.

Lemma eval_deref en sp x :
  eval en (VDeref sp x) =
  match eval en x with
  | Some (w0, t) => match strip1 w0 with Some w => Some (w, t) | None => None end
  | None => None
  end.
Proof. cbn [eval]. destruct (eval en x) as [[w0 t]|]; [|reflexivity]. destruct w0; reflexivity. Qed.

Lemma eval_iter_deref : forall en sp c x,
  eval en (Nat.iter c (VDeref sp) x) =
  match eval en x with
  | Some (w, t) => match strip_n_r c w with Some cv => Some (cv, t) | None => None end
  | None => None
  end.
Proof.
  intros en sp c; induction c as [|c IH]; intros x.
  - cbn. destruct (eval en x) as [[w t]|]; reflexivity.
  - change (Nat.iter (S c) (VDeref sp) x) with (VDeref sp (Nat.iter c (VDeref sp) x)).
    rewrite eval_deref, IH. destruct (eval en x) as [[w t]|]; [|reflexivity].
    cbn [strip_n_r]. destruct (strip_n_r c w); reflexivity.
Qed.

(* ---- field operations: evaluation of the generated chain = specification ---- *)

Fixpoint fold_fop (f : value -> fop -> option value) (l : list fop) (w : value) : option value :=
  match l with
  | [] => Some w
  | x :: r => match f w x with Some w' => fold_fop f r w' | None => None end
  end.

Lemma fop_val_chained c sp ops v : fop_val c v (OChained sp ops) = fold_fop (fop_val c) ops v.
Proof.
  cbn [fop_val]. revert v. induction ops as [|x r IH]; intros v; [reflexivity|].
  cbn [fold_fop]. destruct (fop_val c v x) as [w'|]; [apply IH|reflexivity].
Qed.

Lemma fop_val_atomic_ref c a o : atomic_nonderef o = true -> fop_val c (VRefV a) o = fop_val c a o.
Proof. intros H; destruct o; try discriminate; reflexivity. Qed.

Lemma eval_atomic en base o w t cv :
  atomic_nonderef o = true ->
  eval en base = Some (w, t) ->
  fop_val (e_caller en) w o = Some cv ->
  exists t', eval en (apply_ops base o) = Some (cv, t').
Proof.
  intros Ha He Hf. destruct o; try discriminate; cbn [apply_ops eval fop_val] in *; try rewrite He.
  - (* method *)
    destruct (all_some (map (ueval (e_caller en)) args)) as [avs|]; [|discriminate Hf].
    rewrite Hf. eexists; reflexivity.
  - rewrite Hf. eexists; reflexivity.
  - rewrite Hf. eexists; reflexivity.
  - destruct (ueval (e_caller en) e) as [[k| | | | | | | | | | | |]|]; try discriminate Hf.
    destruct (auto_deref w); try discriminate Hf. destruct (Z.ltb k 0); [discriminate Hf|].
    rewrite Hf. eexists; reflexivity.
Qed.

Lemma eval_atomics en : forall r base w t cv,
  forallb atomic_nonderef r = true ->
  eval en base = Some (w, t) ->
  fold_fop (fop_val (e_caller en)) r w = Some cv ->
  exists t', eval en (fold_left apply_ops r base) = Some (cv, t').
Proof.
  induction r as [|x r IH]; intros base w t cv Hall He Hf; cbn in *.
  - inversion Hf; subst. eexists; exact He.
  - apply andb_prop in Hall as [Hx Hr].
    destruct (fop_val (e_caller en) w x) as [w'|] eqn:E; [|discriminate].
    destruct (eval_atomic en base x w t w' Hx He E) as (t' & He').
    eapply IH; eassumption.
Qed.

Definition tail_wf' (t : fop) : bool :=
  tail_wf t && match t with OChained _ [] => false | OAwait _ => false | _ => true end.

(* on a destructured binding (one reference layer above the field's value) *)
Lemma eval_tail_ref en base tl a t cv :
  tail_wf tl = true ->
  eval en base = Some (VRefV a, t) ->
  fop_val (e_caller en) a tl = Some cv ->
  (match tl with OChained _ [] => False | _ => True end) ->
  exists t', eval en (apply_ops base tl) = Some (cv, t').
Proof.
  intros Hwf He Hf Hne.
  destruct tl as [c sp|m nsp sp args|sp|f nsp sp|i sp|ix sp|sp ops].
  - (* leading dereference only *)
    cbn [apply_ops fop_val] in *. rewrite eval_iter_deref, He, strip_n_r_S. cbn [strip1].
    rewrite <- strip_n_eq, Hf. eexists; reflexivity.
  - eapply eval_atomic; [reflexivity|exact He|]. rewrite fop_val_atomic_ref; [exact Hf|reflexivity].
  - cbn in Hf. discriminate.
  - eapply eval_atomic; [reflexivity|exact He|]. rewrite fop_val_atomic_ref; [exact Hf|reflexivity].
  - eapply eval_atomic; [reflexivity|exact He|]. rewrite fop_val_atomic_ref; [exact Hf|reflexivity].
  - eapply eval_atomic; [reflexivity|exact He|]. rewrite fop_val_atomic_ref; [exact Hf|reflexivity].
  - rewrite fop_val_chained in Hf. cbn [apply_ops]. destruct ops as [|x r]; [destruct Hne|].
    destruct x as [c sp'|m nsp sp' args|sp'|f nsp sp'|i sp'|ix sp'|sp' ops'].
    + (* Deref then plain steps *)
      cbn [tail_wf] in Hwf. cbn [fold_fop fop_val] in Hf.
      destruct (strip_n c a) as [w1|] eqn:E; [|discriminate].
      cbn [fold_left apply_ops].
      eapply eval_atomics; [exact Hwf| |exact Hf].
      rewrite eval_iter_deref, He, strip_n_r_S. cbn [strip1]. rewrite <- strip_n_eq, E. reflexivity.
    + cbn [tail_wf] in Hwf. cbn [fold_left]. cbn [fold_fop] in Hf.
      destruct (fop_val (e_caller en) a (OMethod m nsp sp' args)) as [w'|] eqn:E; [|discriminate].
      apply andb_prop in Hwf as [_ Hr].
      destruct (eval_atomic en base (OMethod m nsp sp' args) (VRefV a) t w') as (t' & He'); [reflexivity|exact He|rewrite fop_val_atomic_ref; [exact E|reflexivity]|].
      eapply eval_atomics; eassumption.
    + cbn in Hf. discriminate.
    + cbn [tail_wf] in Hwf. cbn [fold_left]. cbn [fold_fop] in Hf.
      destruct (fop_val (e_caller en) a (ONamed f nsp sp')) as [w'|] eqn:E; [|discriminate].
      apply andb_prop in Hwf as [_ Hr].
      destruct (eval_atomic en base (ONamed f nsp sp') (VRefV a) t w') as (t' & He'); [reflexivity|exact He|rewrite fop_val_atomic_ref; [exact E|reflexivity]|].
      eapply eval_atomics; eassumption.
    + cbn [tail_wf] in Hwf. cbn [fold_left]. cbn [fold_fop] in Hf.
      destruct (fop_val (e_caller en) a (OUnnamed i sp')) as [w'|] eqn:E; [|discriminate].
      apply andb_prop in Hwf as [_ Hr].
      destruct (eval_atomic en base (OUnnamed i sp') (VRefV a) t w') as (t' & He'); [reflexivity|exact He|rewrite fop_val_atomic_ref; [exact E|reflexivity]|].
      eapply eval_atomics; eassumption.
    + cbn [tail_wf] in Hwf. cbn [fold_left]. cbn [fold_fop] in Hf.
      destruct (fop_val (e_caller en) a (OIndex ix sp')) as [w'|] eqn:E; [|discriminate].
      apply andb_prop in Hwf as [_ Hr].
      destruct (eval_atomic en base (OIndex ix sp') (VRefV a) t w') as (t' & He'); [reflexivity|exact He|rewrite fop_val_atomic_ref; [exact E|reflexivity]|].
      eapply eval_atomics; eassumption.
    + cbn [tail_wf] in Hwf. cbn in Hwf. discriminate.
Qed.

(* on a place that has no reference layer (a wildcard struct's field): only for
   chains that do not dereference *)
Lemma eval_tail_place en base tl fv t cv :
  tail_wf tl = true -> tail_derefs tl = false ->
  eval en base = Some (fv, t) ->
  fop_val (e_caller en) fv tl = Some cv ->
  exists t', eval en (apply_ops base tl) = Some (cv, t').
Proof.
  intros Hwf Hnd He Hf.
  destruct tl as [c sp|m nsp sp args|sp|f nsp sp|i sp|ix sp|sp ops]; try discriminate;
    try (eapply eval_atomic; [reflexivity|exact He|exact Hf]).
  rewrite fop_val_chained in Hf. cbn [apply_ops].
  destruct ops as [|x r]; [cbn in *; inversion Hf; subst; eexists; exact He|].
  destruct x; try discriminate; cbn [tail_wf] in Hwf; eapply eval_atomics; eassumption.
Qed.

(* ---- running a list of statements ---------------------------------------- *)

Fixpoint run_list (l : list stmt) (en : env) : outcome :=
  match l with
  | [] => Some ([], [])
  | x :: r => seq2 (exec x en) (run_list r en)
  end.

Lemma run_fix_eq en body :
  (fix go (l : list stmt) : outcome :=
     match l with [] => Some ([], []) | x :: r => seq2 (exec x en) (go r) end) body = run_list body en.
Proof. induction body as [|x r IH]; cbn; [reflexivity|rewrite IH; reflexivity]. Qed.

Lemma run_list_app a b en : run_list (a ++ b) en = seq2 (run_list a en) (run_list b en).
Proof.
  induction a as [|x r IH]; cbn.
  - destruct (run_list b en) as [[? ?]|]; reflexivity.
  - rewrite IH. destruct (exec x en) as [[r1 t1]|]; [|reflexivity].
    destruct (run_list r en) as [[r2 t2]|]; [|reflexivity].
    destruct (run_list b en) as [[r3 t3]|]; cbn; [rewrite !app_assoc; reflexivity|reflexivity].
Qed.

Lemma seq2_some a b r1 t1 r2 t2 : a = Some (r1, t1) -> b = Some (r2, t2) -> seq2 a b = Some (r1 ++ r2, t1 ++ t2).
Proof. intros -> ->; reflexivity. Qed.

Lemma seq2_pre t (o : outcome) fr tr : o = Some (fr, tr) -> seq2 (Some ([], t)) o = Some (fr, t ++ tr).
Proof. intros ->; reflexivity. Qed.

(* ---- bindings made by positional patterns (variants, tuples) --------------- *)

Section Positional.
  Variable mk : nat -> name.
  Hypothesis mk_inj : forall a b, name_eqb (mk a) (mk b) = Nat.eqb a b.

  Definition binder_of (i : nat) (el : option fop * pat) : option nat :=
    if is_wild (snd el) then None else Some i.

  Lemma pair_opts_lookup : forall elems args i0 bs rest_env,
    pair_opts mk (mapi_from binder_of i0 elems) args VRefV = Some bs ->
    forall k el a, nth_error elems k = Some el -> nth_error args k = Some a -> is_wild (snd el) = false ->
                   lookup (BName (mk (i0 + k))) (bs ++ rest_env) = Some (VRefV a).
  Proof.
    induction elems as [|el0 er IH]; intros args i0 bs rest_env Hp k el a Hk Ha Hw.
    - destruct k; discriminate.
    - destruct args as [|a0 ar]; cbn [mapi_from pair_opts] in Hp; [destruct (binder_of i0 el0); discriminate|].
      unfold binder_of at 1 in Hp. destruct (is_wild (snd el0)) eqn:Ew.
      + destruct k as [|k]; cbn in Hk, Ha.
        * inversion Hk; subst. congruence.
        * replace (i0 + S k) with (S i0 + k) by lia. eapply IH; eassumption.
      + destruct (pair_opts mk (mapi_from binder_of (S i0) er) ar VRefV) as [bs'|] eqn:E; [|discriminate].
        inversion Hp; subst bs. destruct k as [|k]; cbn in Hk, Ha.
        * inversion Hk; inversion Ha; subst. rewrite Nat.add_0_r. cbn. rewrite mk_inj, Nat.eqb_refl. reflexivity.
        * cbn. rewrite mk_inj. destruct (Nat.eqb_spec (i0 + S k) i0); [lia|].
          replace (i0 + S k) with (S i0 + k) by lia. eapply IH; eassumption.
  Qed.

  Lemma pair_opts_total : forall elems args i0,
    List.length args = List.length elems ->
    exists bs, pair_opts mk (mapi_from binder_of i0 elems) args VRefV = Some bs.
  Proof.
    induction elems as [|el0 er IH]; intros args i0 Hl; destruct args as [|a0 ar]; try discriminate.
    - eexists; reflexivity.
    - cbn in Hl. destruct (IH ar (S i0)) as (bs & E); [lia|].
      cbn [mapi_from pair_opts]. unfold binder_of at 1. destruct (is_wild (snd el0)); [eauto|].
      rewrite E. eauto.
  Qed.
End Positional.

(* ---- the nested recursions of the specification, as top-level functions ----- *)

Section SpecUnfold.
  Variable c : list (string * value).
  Variable u : list string.

  Definition elem_frontier (el : option fop * pat) (a : value) : option (list entry) :=
    match fst el with
    | None => frontier c u (snd el) a
    | Some o => match tail_val c o a with
                | Some cv => frontier c u (snd el) cv
                | None => None
                end
    end.

  Fixpoint spec_elems (els : list (option fop * pat)) (vals : list value) : option (list entry) :=
    match els, vals with
    | [], [] => Some []
    | el :: er, a :: ar => app_opt (elem_frontier el a) (spec_elems er ar)
    | _, _ => None
    end.

  Fixpoint spec_pairwise (els : list pat) (vals : list value) : option (list entry) :=
    match els, vals with
    | [], [] => Some []
    | x :: r, a :: ar => app_opt (frontier c u x a) (spec_pairwise r ar)
    | _, _ => None
    end.

  Fixpoint spec_with_rest (els : list pat) (vals : list value) : option (list entry) :=
    match els with
    | [] => Some []
    | x :: r =>
        if is_rest_range x then spec_pairwise r (skipn (List.length vals - List.length r) vals)
        else match vals with
             | a :: ar => app_opt (frontier c u x a) (spec_with_rest r ar)
             | [] => None
             end
    end.

  Ltac split_matches :=
    repeat match goal with
           | |- match ?x with _ => _ end = match ?x with _ => _ end => destruct x
           | |- (if ?x then _ else _) = (if ?x then _ else _) => destruct x
           end; try reflexivity.

  Lemma frontier_enum id path el elems v :
    frontier c u (PEnum id path (el :: elems)) v =
    match path_last path with
    | None => None
    | Some nm =>
        match peel v with
        | VVariantV n args =>
            if String.eqb n nm then spec_elems (el :: elems) args
            else Some [mk_entry id (TDebug (peel v)) None]
        | VStructV _ _ => Some [mk_entry id (TDebug (peel v)) None]
        | _ => None
        end
    end.
  Proof.
    cbn [frontier]. split_matches.
  Qed.

  Lemma frontier_tuple id sp elems v :
    frontier c u (PTuple id sp elems) v =
    match peel v with
    | VTupleV vs => spec_elems elems vs
    | _ => None
    end.
  Proof.
    cbn [frontier]. split_matches.
  Qed.

  Lemma frontier_slice id sp elems v :
    frontier c u (PSlice id sp elems) v =
    match elements_of v with
    | Some vs =>
        let nrest := List.length (filter is_rest_range elems) in
        let k := List.length elems - nrest in
        match nrest with
        | 0 => if Nat.eqb (List.length vs) k then spec_pairwise elems vs
               else Some [mk_entry id (TDebug (peel v)) None]
        | 1 => if Nat.leb k (List.length vs) then spec_with_rest elems vs
               else Some [mk_entry id (TDebug (peel v)) None]
        | _ => None
        end
    | None => None
    end.
  Proof.
    cbn [frontier]. cbv zeta. split_matches.
  Qed.
End SpecUnfold.

(* ---- bindings made by a named struct pattern ------------------------------- *)

Lemma field_name_eqb_str a b : field_name_eqb a b = true -> field_name_str a = field_name_str b.
Proof.
  destruct a, b; cbn; try discriminate.
  - intros H; apply String.eqb_eq in H; exact H.
  - intros H; apply N.eqb_eq in H; subst; reflexivity.
Qed.

Lemma dedup_In : forall l seen x, In x (dedup_fields seen l) -> In x l.
Proof.
  induction l as [|f0 r IH]; intros seen x H; [destruct H|]. cbn in H.
  destruct (existsb (field_name_eqb f0) seen).
  - right; eapply IH; exact H.
  - destruct H as [->|H]; [left; reflexivity|right; eapply IH; exact H].
Qed.

Lemma dedup_repr : forall l seen f, In f l ->
  existsb (field_name_eqb f) seen = true \/
  exists f', In f' (dedup_fields seen l) /\ field_name_str f' = field_name_str f.
Proof.
  induction l as [|f0 r IH]; intros seen f Hin; [destruct Hin|]. cbn [dedup_fields].
  destruct (existsb (field_name_eqb f0) seen) eqn:E0.
  - destruct Hin as [->|Hin]; [left; exact E0|apply IH; exact Hin].
  - destruct Hin as [->|Hin].
    + right. exists f. split; [left; reflexivity|reflexivity].
    + destruct (IH (f0 :: seen) f Hin) as [H|(f' & H1 & H2)].
      * cbn in H. apply orb_prop in H as [H|H].
        -- right. exists f0. split; [left; reflexivity|symmetry; apply field_name_eqb_str; exact H].
        -- left; exact H.
      * right. exists f'. split; [right; exact H1|exact H2].
Qed.

Lemma pair_fields_lookup : forall names vals bs rest_env,
  pair_fields names vals = Some bs ->
  forall f, In f names ->
  exists v, assoc (field_name_str f) vals = Some v /\
            lookup (BField (field_name_str f)) (bs ++ rest_env) = Some (VRefV v).
Proof.
  induction names as [|f0 r IH]; intros vals bs rest_env Hp f Hin; [destruct Hin|].
  cbn in Hp. destruct (assoc (field_name_str f0) vals) as [v0|] eqn:E0; [|discriminate].
  destruct (pair_fields r vals) as [l|] eqn:El; [|discriminate]. inversion Hp; subst bs. cbn [app lookup bkey_eqb].
  destruct (String.eqb (field_name_str f) (field_name_str f0)) eqn:Es.
  - apply String.eqb_eq in Es. rewrite Es. exists v0. split; [exact E0|reflexivity].
  - destruct Hin as [->|Hin]; [rewrite String.eqb_refl in Es; discriminate|].
    eapply IH; eassumption.
Qed.

Lemma pair_fields_total : forall names vals,
  (forall f, In f names -> exists v, assoc (field_name_str f) vals = Some v) ->
  exists bs, pair_fields names vals = Some bs.
Proof.
  induction names as [|f0 r IH]; intros vals H; [eexists; reflexivity|]. cbn.
  destruct (H f0) as (v0 & E0); [left; reflexivity|]. rewrite E0.
  destruct (IH vals) as (l & El); [intros f Hf; apply H; right; exact Hf|]. rewrite El. eexists; reflexivity.
Qed.

(* ---- bindings made by a slice pattern --------------------------------------- *)

Lemma name_eqb_eq a b : name_eqb a b = true <-> a = b.
Proof.
  split.
  - destruct a, b; cbn; try discriminate; try reflexivity; intros H; apply Nat.eqb_eq in H; subst; reflexivity.
  - intros ->. destruct b; cbn; try reflexivity; apply Nat.eqb_refl.
Qed.

Lemma bkey_eqb_eq a b : bkey_eqb a b = true <-> a = b.
Proof.
  destruct a, b; cbn; split; try discriminate; intros H.
  - apply name_eqb_eq in H; subst; reflexivity.
  - inversion H; subst. apply name_eqb_eq; reflexivity.
  - apply String.eqb_eq in H; subst; reflexivity.
  - inversion H; subst. apply String.eqb_refl.
Qed.

Lemma lookup_in : forall bs rest_env k v,
  NoDup (map fst bs) -> In (k, v) bs -> lookup k (bs ++ rest_env) = Some v.
Proof.
  induction bs as [|[k0 v0] r IH]; intros rest_env k v Hnd Hin; [destruct Hin|].
  cbn in *. inversion Hnd as [|? ? Hnot Hnd']; subst.
  destruct Hin as [Heq|Hin].
  - inversion Heq; subst. rewrite (proj2 (bkey_eqb_eq k k) eq_refl). reflexivity.
  - destruct (bkey_eqb k k0) eqn:E.
    + apply bkey_eqb_eq in E; subst. exfalso. apply Hnot. apply in_map_iff. exists (k0, v); split; [reflexivity|exact Hin].
    + apply IH; assumption.
Qed.

Definition part_of (i : nat) (el : pat) : slice_part :=
  if is_rest_range el then SPRest else if is_wild el then SPWild else SPBind i.

Definition key_ge (i0 : nat) (kv : bkey * value) : Prop := exists k, fst kv = BName (NElem k) /\ i0 <= k.

Lemma pair_parts_keys : forall elems vals i0 bs,
  pair_parts (mapi_from part_of i0 elems) vals = Some bs ->
  Forall (key_ge i0) bs /\ NoDup (map fst bs).
Proof.
  induction elems as [|el r IH]; intros vals i0 bs H.
  - destruct vals; cbn in H; inversion H; subst. split; constructor.
  - cbn [mapi_from pair_parts] in H. unfold part_of at 1 in H.
    destruct (is_rest_range el); [discriminate|].
    destruct (is_wild el).
    + destruct vals as [|a ar]; [discriminate|]. destruct (IH ar (S i0) bs H) as (Hf & Hn).
      split; [|exact Hn]. eapply Forall_impl; [|exact Hf]. intros kv (k & E & Hk). exists k; split; [exact E|lia].
    + destruct vals as [|a ar]; [discriminate|].
      destruct (pair_parts (mapi_from part_of (S i0) r) ar) as [l|] eqn:El; [|discriminate].
      inversion H; subst bs. destruct (IH ar (S i0) l El) as (Hf & Hn). split.
      * constructor; [exists i0; split; [reflexivity|lia]|].
        eapply Forall_impl; [|exact Hf]. intros kv (k & E & Hk). exists k; split; [exact E|lia].
      * cbn. constructor; [|exact Hn]. intros Hin. apply in_map_iff in Hin as (kv & E & Hkv).
        eapply Forall_forall in Hf; [|exact Hkv]. destruct Hf as (k & E' & Hk). rewrite E' in E. inversion E. lia.
Qed.

Lemma mapi_from_length {A B} (f : nat -> A -> B) : forall l i, List.length (mapi_from f i l) = List.length l.
Proof. induction l as [|x r IH]; intros i; cbn; [reflexivity|rewrite IH; reflexivity]. Qed.

Lemma pair_parts_rest_keys : forall elems vals i0 bs,
  pair_parts_rest (mapi_from part_of i0 elems) vals = Some bs ->
  Forall (key_ge i0) bs /\ NoDup (map fst bs).
Proof.
  induction elems as [|el r IH]; intros vals i0 bs H.
  - cbn in H; inversion H; subst. split; constructor.
  - cbn [mapi_from pair_parts_rest] in H. unfold part_of at 1 in H.
    destruct (is_rest_range el).
    + apply pair_parts_keys in H as (Hf & Hn). split; [|exact Hn].
      eapply Forall_impl; [|exact Hf]. intros kv (k & E & Hk). exists k; split; [exact E|lia].
    + destruct (is_wild el).
      * destruct vals as [|a ar]; [discriminate|]. destruct (IH ar (S i0) bs H) as (Hf & Hn).
        split; [|exact Hn]. eapply Forall_impl; [|exact Hf]. intros kv (k & E & Hk). exists k; split; [exact E|lia].
      * destruct vals as [|a ar]; [discriminate|].
        destruct (pair_parts_rest (mapi_from part_of (S i0) r) ar) as [l|] eqn:El; [|discriminate].
        inversion H; subst bs. destruct (IH ar (S i0) l El) as (Hf & Hn). split.
        -- constructor; [exists i0; split; [reflexivity|lia]|].
           eapply Forall_impl; [|exact Hf]. intros kv (k & E & Hk). exists k; split; [exact E|lia].
        -- cbn. constructor; [|exact Hn]. intros Hin. apply in_map_iff in Hin as (kv & E & Hkv).
           eapply Forall_forall in Hf; [|exact Hkv]. destruct Hf as (k & E' & Hk). rewrite E' in E. inversion E. lia.
Qed.

(* ---- the master lemma ------------------------------------------------------ *)

Section Master.
  Variable j : bool.

  Definition IHp (p : pat) : Prop :=
    forall e en v t fr,
      pat_ok (e_units en) p = true ->
      eval en e = Some (v, t) ->
      frontier (e_caller en) (e_units en) p v = Some fr ->
      exists tr, exec (expand j p e) en = Some (fr, tr).

  Lemma is_wild_frontier p c u v : is_wild p = true -> frontier c u p v = Some [].
  Proof. destruct p; try discriminate; reflexivity. Qed.

  (* a field assertion on a destructured binding *)
  Lemma with_tail_bound en o base a fpat cv fr :
    ops_ok false o = true ->
    eval en base = Some (VRefV a, []) ->
    tail_val (e_caller en) o a = Some cv ->
    IHp fpat -> pat_ok (e_units en) fpat = true ->
    frontier (e_caller en) (e_units en) fpat cv = Some fr ->
    exists tr, exec (with_tail o base base (expand j fpat)) en = Some (fr, tr).
  Proof.
    intros Hok He Ht IH Hp Hf. unfold ops_ok in Hok. apply andb_prop in Hok as [_ Hok].
    unfold with_tail, tail_val in *. destruct (tail_operations o) as [|tl|] eqn:Et; [| |discriminate].
    - inversion Ht; subst. eapply IH; [exact Hp|exact He|]. rewrite frontier_ref. exact Hf.
    - rewrite andb_false_l, andb_true_r in Hok. apply andb_prop in Hok as [Hwf Hidx]. rewrite Hidx.
      destruct (eval_tail_ref en base tl a [] cv Hwf He Ht) as (t' & He').
      + destruct tl as [| | | | | |? [|? ?]]; try exact I. cbn in Hwf. discriminate.
      + eapply IH; [exact Hp|exact He'|exact Hf].
  Qed.

  Section Positional.
    Variable mk : nat -> name.
    Hypothesis mk_inj : forall a b, name_eqb (mk a) (mk b) = Nat.eqb a b.

    Definition elem_stmts (i : nat) (el : option fop * pat) : list stmt :=
      let '(ops, ep) := el in
      if is_wild ep then []
      else match ops with
           | None => [expand j ep (VBind (mk i))]
           | Some o => let base := VBind (mk i) in [with_tail o base base (expand j ep)]
           end.

    Lemma elems_body : forall elems args i0 en fr,
      (forall k el a, nth_error elems k = Some el -> nth_error args k = Some a -> is_wild (snd el) = false ->
                      lookup (BName (mk (i0 + k))) (e_bind en) = Some (VRefV a)) ->
      Forall (fun el => IHp (snd el)) elems ->
      forallb (fun el => match fst el with Some o => ops_ok false o | None => true end && pat_ok (e_units en) (snd el)) elems = true ->
      spec_elems (e_caller en) (e_units en) elems args = Some fr ->
      exists tr, run_list (flat_map (fun x => x) (mapi_from elem_stmts i0 elems)) en = Some (fr, tr).
    Proof.
      induction elems as [|el er IH]; intros args i0 en fr Hlk HIH Hok Hs.
      - destruct args; [|discriminate]. inversion Hs; subst. eexists; reflexivity.
      - destruct args as [|a ar]; [discriminate|]. cbn [spec_elems] in Hs.
        destruct (elem_frontier (e_caller en) (e_units en) el a) as [f1|] eqn:E1; [|discriminate].
        destruct (spec_elems (e_caller en) (e_units en) er ar) as [f2|] eqn:E2; [|discriminate].
        cbn in Hs. inversion Hs; subst fr. clear Hs.
        inversion HIH as [|? ? Hel Her]; subst. cbn [forallb] in Hok. apply andb_prop in Hok as [Hok1 Hok2].
        apply andb_prop in Hok1 as [Hops Hpat].
        destruct (IH ar (S i0) en f2) as (tr2 & Hr2); [| exact Her | exact Hok2 | exact E2 |].
        { intros k el' a' Hk Ha Hw. replace (S i0 + k) with (i0 + S k) by lia. eapply Hlk; cbn; eassumption. }
        cbn [mapi_from flat_map]. rewrite run_list_app.
        assert (H1 : exists tr1, run_list (elem_stmts i0 el) en = Some (f1, tr1)).
        { destruct el as [ops ep]. unfold elem_stmts. cbn [fst snd] in *. destruct (is_wild ep) eqn:Ew.
          - unfold elem_frontier in E1. cbn [fst snd] in E1.
            assert (f1 = []).
            { destruct ops as [o|].
              - destruct (tail_val (e_caller en) o a); [|discriminate]. rewrite is_wild_frontier in E1 by exact Ew. congruence.
              - rewrite is_wild_frontier in E1 by exact Ew. congruence. }
            subst. eexists; reflexivity.
          - assert (Hl : lookup (BName (mk i0)) (e_bind en) = Some (VRefV a)).
            { rewrite <- (Nat.add_0_r i0). eapply Hlk; [reflexivity|reflexivity|exact Ew]. }
            assert (Hev : eval en (VBind (mk i0)) = Some (VRefV a, [])) by (cbn; rewrite Hl; reflexivity).
            unfold elem_frontier in E1. cbn [fst snd] in E1. destruct ops as [o|].
            + destruct (tail_val (e_caller en) o a) as [cv|] eqn:Et; [|discriminate].
              destruct (with_tail_bound en o (VBind (mk i0)) a ep cv f1 Hops Hev Et Hel Hpat E1) as (tr1 & H1).
              cbn [run_list]. rewrite H1. cbn. rewrite app_nil_r. eexists; reflexivity.
            + destruct (Hel (VBind (mk i0)) en (VRefV a) [] f1 Hpat Hev) as (tr1 & H1); [rewrite frontier_ref; exact E1|].
              cbn [run_list]. rewrite H1. cbn. rewrite app_nil_r. eexists; reflexivity. }
        destruct H1 as (tr1 & H1). rewrite H1, Hr2. cbn. eexists; reflexivity.
    Qed.

    Lemma spec_elems_length c u : forall elems args fr, spec_elems c u elems args = Some fr -> List.length args = List.length elems.
    Proof.
      induction elems as [|el er IH]; intros args fr H; destruct args as [|a ar]; try discriminate; [reflexivity|].
      cbn in H. destruct (elem_frontier c u el a); [|discriminate].
      destruct (spec_elems c u er ar) eqn:E; [|discriminate]. cbn. f_equal. eapply IH; exact E.
    Qed.
  End Positional.

  (* ---- named struct fields ------------------------------------------------ *)

  Definition field_stmt (fp : fop * pat) : stmt :=
    let '(ops, fpat) := fp in
    match root_field_name ops with
    | None => SPanic "root_field_name"
    | Some fname => let base := VFieldBind fname in with_tail ops base base (expand j fpat)
    end.

  Definition spec_field (c : list (string * value)) (u : list string) (vals : list (string * value))
             (fp : fop * pat) : option (list entry) :=
    match root_field_name (fst fp) with
    | Some f => match assoc (field_name_str f) vals with
                | Some fv => match tail_val c (fst fp) fv with
                             | Some cv => frontier c u (snd fp) cv
                             | None => None
                             end
                | None => None
                end
    | None => None
    end.

  Lemma fields_body : forall fields en vals fr,
    (forall fp f, In fp fields -> root_field_name (fst fp) = Some f ->
                  forall v, assoc (field_name_str f) vals = Some v ->
                            lookup (BField (field_name_str f)) (e_bind en) = Some (VRefV v)) ->
    Forall (fun fp => IHp (snd fp)) fields ->
    forallb (fun fp => ops_ok false (fst fp) && pat_ok (e_units en) (snd fp)) fields = true ->
    concat_opt (map (spec_field (e_caller en) (e_units en) vals) fields) = Some fr ->
    exists tr, run_list (map field_stmt fields) en = Some (fr, tr).
  Proof.
    induction fields as [|fp r IH]; intros en vals fr Hlk HIH Hok Hs.
    - cbn in Hs. inversion Hs; subst. eexists; reflexivity.
    - cbn [map concat_opt] in Hs.
      destruct (spec_field (e_caller en) (e_units en) vals fp) as [f1|] eqn:E1; [|discriminate].
      destruct (concat_opt (map (spec_field (e_caller en) (e_units en) vals) r)) as [f2|] eqn:E2; [|discriminate].
      inversion Hs; subst fr. inversion HIH as [|? ? Hfp Hr]; subst.
      cbn [forallb] in Hok. apply andb_prop in Hok as [Hok1 Hok2]. apply andb_prop in Hok1 as [Hops Hpat].
      destruct (IH en vals f2) as (tr2 & Hr2); [|exact Hr|exact Hok2|exact E2|].
      { intros fp' f' Hin. apply Hlk. right; exact Hin. }
      cbn [map run_list]. rewrite Hr2.
      destruct fp as [ops fpat]. unfold spec_field in E1. cbn [fst snd] in *. unfold field_stmt.
      destruct (root_field_name ops) as [f|] eqn:Er; [|discriminate].
      destruct (assoc (field_name_str f) vals) as [fv|] eqn:Ea; [|discriminate].
      destruct (tail_val (e_caller en) ops fv) as [cv|] eqn:Et; [|discriminate].
      assert (Hev : eval en (VFieldBind f) = Some (VRefV fv, [])).
      { cbn. rewrite (Hlk (ops, fpat) f (or_introl eq_refl) Er fv Ea). reflexivity. }
      destruct (with_tail_bound en ops (VFieldBind f) fv fpat cv f1 Hops Hev Et Hfp Hpat E1) as (tr1 & H1).
      rewrite H1. cbn. eexists; reflexivity.
  Qed.

  (* ---- wildcard struct fields ---------------------------------------------- *)

  Lemma with_tail_place en o base fv t0 fpat cv fr :
    ops_ok true o = true ->
    eval en base = Some (fv, t0) ->
    tail_val (e_caller en) o fv = Some cv ->
    IHp fpat -> pat_ok (e_units en) fpat = true ->
    frontier (e_caller en) (e_units en) fpat cv = Some fr ->
    exists tr, exec (with_tail o base (VRef base) (expand j fpat)) en = Some (fr, tr).
  Proof.
    intros Hok He Ht IH Hp Hf. unfold ops_ok in Hok. apply andb_prop in Hok as [_ Hok].
    unfold with_tail, tail_val in *. destruct (tail_operations o) as [|tl|] eqn:Et; [| |discriminate].
    - inversion Ht; subst. eapply IH; [exact Hp| |rewrite frontier_ref; exact Hf]. cbn. rewrite He. reflexivity.
    - apply andb_prop in Hok as [Hok Hnd]. apply andb_prop in Hok as [Hwf Hidx]. rewrite Hidx.
      cbn in Hnd. apply negb_true_iff in Hnd.
      destruct (eval_tail_place en base tl fv t0 cv Hwf Hnd He Ht) as (t' & He').
      eapply IH; [exact Hp|exact He'|exact Hf].
  Qed.

  Definition wfield_stmt (e : vexpr) (fp : fop * pat) : stmt :=
    let '(ops, fpat) := fp in
    match root_field_name ops with
    | None => SPanic "root_field_name"
    | Some fname =>
        if field_name_index_ok fname then
          let base := VField e fname in with_tail ops base (VRef base) (expand j fpat)
        else SPanic "syn::Index::from: index does not fit in u32"
    end.

  Definition spec_wfield (c : list (string * value)) (u : list string) (v : value) (fp : fop * pat)
    : option (list entry) :=
    match root_field_name (fst fp) with
    | Some (FIdent f _) =>
        match field_of v f with
        | Some fv => match tail_val c (fst fp) fv with
                     | Some cv => frontier c u (snd fp) cv
                     | None => None
                     end
        | None => None
        end
    | Some (FIndex i _) =>
        match elem_of v i with
        | Some fv => match tail_val c (fst fp) fv with
                     | Some cv => frontier c u (snd fp) cv
                     | None => None
                     end
        | None => None
        end
    | None => None
    end.

  Lemma wfields_body : forall fields en e v t fr,
    eval en e = Some (v, t) ->
    Forall (fun fp => IHp (snd fp)) fields ->
    forallb (fun fp => ops_ok true (fst fp) && pat_ok (e_units en) (snd fp)) fields = true ->
    concat_opt (map (spec_wfield (e_caller en) (e_units en) v) fields) = Some fr ->
    exists tr, run_list (map (wfield_stmt e) fields) en = Some (fr, tr).
  Proof.
    induction fields as [|fp r IH]; intros en e v t fr He HIH Hok Hs.
    - cbn in Hs. inversion Hs; subst. eexists; reflexivity.
    - cbn [map concat_opt] in Hs.
      destruct (spec_wfield (e_caller en) (e_units en) v fp) as [f1|] eqn:E1; [|discriminate].
      destruct (concat_opt (map (spec_wfield (e_caller en) (e_units en) v) r)) as [f2|] eqn:E2; [|discriminate].
      inversion Hs; subst fr. inversion HIH as [|? ? Hfp Hr]; subst.
      cbn [forallb] in Hok. apply andb_prop in Hok as [Hok1 Hok2]. apply andb_prop in Hok1 as [Hops Hpat].
      destruct (IH en e v t f2 He Hr Hok2 E2) as (tr2 & Hr2).
      cbn [map run_list]. rewrite Hr2.
      destruct fp as [ops fpat]. unfold spec_wfield in E1. cbn [fst snd] in *. unfold wfield_stmt.
      assert (Hidx : match root_field_name ops with Some f => field_name_index_ok f | None => false end = true).
      { unfold ops_ok in Hops. apply andb_prop in Hops as [H _]. exact H. }
      destruct (root_field_name ops) as [f|] eqn:Er; [|discriminate]. rewrite Hidx.
      destruct f as [fs fsp|fi fisp].
      + destruct (field_of v fs) as [fv|] eqn:Ea; [|discriminate].
        destruct (tail_val (e_caller en) ops fv) as [cv|] eqn:Et; [|discriminate].
        assert (Hev : eval en (VField e (FIdent fs fsp)) = Some (fv, t)) by (cbn; rewrite He, Ea; reflexivity).
        destruct (with_tail_place en ops _ fv t fpat cv f1 Hops Hev Et Hfp Hpat E1) as (tr1 & H1).
        rewrite H1. cbn. eexists; reflexivity.
      + destruct (elem_of v fi) as [fv|] eqn:Ea; [|discriminate].
        destruct (tail_val (e_caller en) ops fv) as [cv|] eqn:Et; [|discriminate].
        assert (Hev : eval en (VField e (FIndex fi fisp)) = Some (fv, t)) by (cbn; rewrite He, Ea; reflexivity).
        destruct (with_tail_place en ops _ fv t fpat cv f1 Hops Hev Et Hfp Hpat E1) as (tr1 & H1).
        rewrite H1. cbn. eexists; reflexivity.
  Qed.

  (* ---- slice elements -------------------------------------------------------- *)

  Definition slice_stmts (i : nat) (el : pat) : list stmt :=
    if is_rest_range el || is_wild el then [] else [expand j el (VBind (NElem i))].

  Lemma slice_exact_body : forall elems vals i0 en bs fr,
    pair_parts (mapi_from part_of i0 elems) vals = Some bs ->
    (forall k v, In (k, v) bs -> lookup k (e_bind en) = Some v) ->
    Forall IHp elems -> forallb (pat_ok (e_units en)) elems = true ->
    spec_pairwise (e_caller en) (e_units en) elems vals = Some fr ->
    exists tr, run_list (flat_map (fun x => x) (mapi_from slice_stmts i0 elems)) en = Some (fr, tr).
  Proof.
    induction elems as [|el r IH]; intros vals i0 en bs fr Hp Hlk HIH Hok Hs.
    - destruct vals; [|discriminate]. inversion Hs; subst. eexists; reflexivity.
    - destruct vals as [|a ar]; [discriminate|]. cbn [spec_pairwise] in Hs.
      destruct (frontier (e_caller en) (e_units en) el a) as [f1|] eqn:E1; [|discriminate].
      destruct (spec_pairwise (e_caller en) (e_units en) r ar) as [f2|] eqn:E2; [|discriminate].
      cbn in Hs. inversion Hs; subst fr. inversion HIH as [|? ? Hel Hr]; subst.
      cbn [forallb] in Hok. apply andb_prop in Hok as [Hpat Hok2].
      cbn [mapi_from pair_parts] in Hp. unfold part_of at 1 in Hp.
      cbn [mapi_from flat_map]. unfold slice_stmts at 1.
      destruct (is_rest_range el) eqn:Er; [discriminate|]. destruct (is_wild el) eqn:Ew; cbn [orb].
      + rewrite is_wild_frontier in E1 by exact Ew. inversion E1; subst f1.
        destruct (IH ar (S i0) en bs f2 Hp Hlk Hr Hok2 E2) as (tr2 & H2). cbn. rewrite H2. eexists; reflexivity.
      + destruct (pair_parts (mapi_from part_of (S i0) r) ar) as [l|] eqn:El; [|discriminate]. inversion Hp; subst bs.
        destruct (IH ar (S i0) en l f2 El) as (tr2 & H2); [|exact Hr|exact Hok2|exact E2|].
        { intros k v Hin. apply Hlk. right; exact Hin. }
        assert (Hev : eval en (VBind (NElem i0)) = Some (VRefV a, [])).
        { cbn. rewrite (Hlk (BName (NElem i0)) (VRefV a) (or_introl eq_refl)). reflexivity. }
        destruct (Hel (VBind (NElem i0)) en (VRefV a) [] f1 Hpat Hev) as (tr1 & H1); [rewrite frontier_ref; exact E1|].
        cbn [app run_list]. rewrite H1, H2. cbn. eexists; reflexivity.
  Qed.

  Lemma slice_rest_body : forall elems vals i0 en bs fr,
    pair_parts_rest (mapi_from part_of i0 elems) vals = Some bs ->
    (forall k v, In (k, v) bs -> lookup k (e_bind en) = Some v) ->
    Forall IHp elems -> forallb (pat_ok (e_units en)) elems = true ->
    spec_with_rest (e_caller en) (e_units en) elems vals = Some fr ->
    exists tr, run_list (flat_map (fun x => x) (mapi_from slice_stmts i0 elems)) en = Some (fr, tr).
  Proof.
    induction elems as [|el r IH]; intros vals i0 en bs fr Hp Hlk HIH Hok Hs.
    - cbn in Hs. inversion Hs; subst. eexists; reflexivity.
    - inversion HIH as [|? ? Hel Hr]; subst. cbn [forallb] in Hok. apply andb_prop in Hok as [Hpat Hok2].
      cbn [spec_with_rest] in Hs. cbn [mapi_from pair_parts_rest] in Hp. unfold part_of at 1 in Hp.
      cbn [mapi_from flat_map]. unfold slice_stmts at 1.
      destruct (is_rest_range el) eqn:Er; cbn [orb].
      + rewrite mapi_from_length in Hp. cbn [app]. eapply slice_exact_body; eassumption.
      + destruct vals as [|a ar]; [destruct (is_wild el); discriminate|].
        destruct (frontier (e_caller en) (e_units en) el a) as [f1|] eqn:E1; [|discriminate].
        destruct (spec_with_rest (e_caller en) (e_units en) r ar) as [f2|] eqn:E2; [|discriminate].
        cbn in Hs. inversion Hs; subst fr.
        destruct (is_wild el) eqn:Ew.
        * rewrite is_wild_frontier in E1 by exact Ew. inversion E1; subst f1.
          destruct (IH ar (S i0) en bs f2 Hp Hlk Hr Hok2 E2) as (tr2 & H2). cbn. rewrite H2. eexists; reflexivity.
        * destruct (pair_parts_rest (mapi_from part_of (S i0) r) ar) as [l|] eqn:El; [|discriminate]. inversion Hp; subst bs.
          destruct (IH ar (S i0) en l f2 El) as (tr2 & H2); [|exact Hr|exact Hok2|exact E2|].
          { intros k v Hin. apply Hlk. right; exact Hin. }
          assert (Hev : eval en (VBind (NElem i0)) = Some (VRefV a, [])).
          { cbn. rewrite (Hlk (BName (NElem i0)) (VRefV a) (or_introl eq_refl)). reflexivity. }
          destruct (Hel (VBind (NElem i0)) en (VRefV a) [] f1 Hpat Hev) as (tr1 & H1); [rewrite frontier_ref; exact E1|].
          cbn [app run_list]. rewrite H1, H2. cbn. eexists; reflexivity.
  Qed.

  Lemma count_rest_parts : forall elems i0,
    count_rest (mapi_from part_of i0 elems) = List.length (filter is_rest_range elems).
  Proof.
    induction elems as [|el r IH]; intros i0; [reflexivity|]. cbn [mapi_from count_rest filter]. unfold part_of at 1.
    destruct (is_rest_range el); cbn; [rewrite IH; reflexivity|]. destruct (is_wild el); apply IH.
  Qed.

  Lemma spec_pairwise_length c u : forall elems vals fr,
    spec_pairwise c u elems vals = Some fr -> List.length vals = List.length elems.
  Proof.
    induction elems as [|el r IH]; intros vals fr H; destruct vals as [|a ar]; try discriminate; [reflexivity|].
    cbn in H. destruct (frontier c u el a); [|discriminate].
    destruct (spec_pairwise c u r ar) eqn:E; [|discriminate]. cbn. f_equal. eapply IH; exact E.
  Qed.

  Lemma pair_parts_total : forall elems vals i0,
    filter is_rest_range elems = [] -> List.length vals = List.length elems ->
    exists bs, pair_parts (mapi_from part_of i0 elems) vals = Some bs.
  Proof.
    induction elems as [|el r IH]; intros vals i0 Hf Hl; destruct vals as [|a ar]; try discriminate.
    - eexists; reflexivity.
    - cbn [filter] in Hf. cbn [mapi_from pair_parts]. unfold part_of at 1.
      destruct (is_rest_range el); [discriminate|].
      destruct (IH ar (S i0) Hf) as (l & El); [cbn in Hl; lia|].
      destruct (is_wild el); rewrite El; eexists; reflexivity.
  Qed.

  Lemma pair_parts_rest_total : forall elems vals i0,
    List.length (filter is_rest_range elems) = 1 -> List.length elems - 1 <= List.length vals ->
    exists bs, pair_parts_rest (mapi_from part_of i0 elems) vals = Some bs.
  Proof.
    induction elems as [|el r IH]; intros vals i0 Hf Hl; [discriminate|].
    cbn [filter] in Hf. cbn [mapi_from pair_parts_rest]. unfold part_of at 1.
    destruct (is_rest_range el) eqn:Er.
    - cbn in Hf. rewrite mapi_from_length. apply pair_parts_total.
      + destruct (filter is_rest_range r); [reflexivity|discriminate].
      + cbn in Hl. rewrite skipn_length. lia.
    - assert (Hr : 1 <= List.length r).
      { destruct r; [discriminate|cbn; lia]. }
      destruct vals as [|a ar]; [cbn in Hl; lia|].
      destruct (IH ar (S i0) Hf) as (l & El); [cbn in Hl |- *; lia|].
      destruct (is_wild el); rewrite El; eexists; reflexivity.
  Qed.

  (* ---- set predicates ---------------------------------------------------------- *)

  Definition probe (en : env) (pr : stmt) (el : value) : option bool :=
    match exec pr (bind (BName NSetElem) (VRefV el) en) with
    | Some (rep, _) => Some (match rep with [] => true | _ => false end)
    | None => None
    end.

  Lemma rows_fix_eq en vs preds :
    (fix go (l : list stmt) : list (list (option bool)) :=
       match l with
       | [] => []
       | pr :: r =>
           map (fun el => match exec pr (bind (BName NSetElem) (VRefV el) en) with
                          | Some (rep, _) => Some (match rep with [] => true | _ => false end)
                          | None => None
                          end) vs :: go r
       end) preds = map (fun pr => map (probe en pr) vs) preds.
  Proof. induction preds as [|pr r IH]; [reflexivity|]. rewrite IH. reflexivity. Qed.

  Definition spec_cell (c : list (string * value)) (u : list string) (el : pat) (x : value) : option bool :=
    match frontier c u el x with
    | Some [] => Some true
    | Some _ => Some false
    | None => None
    end.

  Lemma all_some_map_ext {A B} (f g : A -> option B) : forall l r,
    all_some (map f l) = Some r ->
    (forall x b, In x l -> f x = Some b -> g x = Some b) ->
    all_some (map g l) = Some r.
  Proof.
    induction l as [|x l IH]; intros r H Hfg; cbn in *; [exact H|].
    destruct (f x) as [b|] eqn:E; [|discriminate].
    destruct (all_some (map f l)) as [t|] eqn:Et; [|discriminate].
    rewrite (Hfg x b (or_introl eq_refl) E). rewrite (IH t eq_refl); [exact H|].
    intros y b' Hy. apply Hfg. right; exact Hy.
  Qed.

  Lemma probe_cell en el x b :
    IHp el -> pat_ok (e_units en) el = true ->
    spec_cell (e_caller en) (e_units en) el x = Some b ->
    probe en (expand j el (VBind NSetElem)) x = Some b.
  Proof.
    intros IH Hp Hs. unfold spec_cell in Hs. unfold probe.
    destruct (frontier (e_caller en) (e_units en) el x) as [fr|] eqn:E; [|discriminate].
    destruct (IH (VBind NSetElem) (bind (BName NSetElem) (VRefV x) en) (VRefV x) [] fr) as (tr & H).
    - exact Hp.
    - reflexivity.
    - rewrite frontier_ref. exact E.
    - rewrite H. destruct fr; exact Hs.
  Qed.

  Lemma set_matrix en vs : forall elems M,
    Forall IHp elems -> forallb (pat_ok (e_units en)) elems = true ->
    all_some (map (fun el => all_some (map (spec_cell (e_caller en) (e_units en) el) vs)) elems) = Some M ->
    all_some (map all_some (map (fun pr => map (probe en pr) vs) (map (fun el => expand j el (VBind NSetElem)) elems))) = Some M.
  Proof.
    intros elems M HIH Hok H. rewrite !map_map.
    eapply all_some_map_ext; [exact H|].
    intros el row Hin Hrow. cbn beta.
    eapply all_some_map_ext; [exact Hrow|].
    intros x b _ Hb. apply probe_cell; [|exact (proj1 (forallb_forall _ _) Hok el Hin)|exact Hb].
    exact (proj1 (Forall_forall _ _) HIH el Hin).
  Qed.

  (* ---- map entries ---------------------------------------------------------------- *)

  Definition entry_stmt (e : vexpr) (id : N) (kv : uexpr * pat) : stmt :=
    let '(k, vp) := kv in
    let sp := expr_span j k in
    SMapGet sp e k (expand j vp (VBind NMapValue)) (mk_push sp id AMissingKey (EKeyPresent (u_text k))).

  Definition spec_entry (c : list (string * value)) (u : list string) (id : N) (kvs : list (value * value))
             (kv : uexpr * pat) : option (list entry) :=
    match ueval c (fst kv) with
    | Some k =>
        match map_get k kvs with
        | Some w => frontier c u (snd kv) w
        | None => Some [mk_entry id TMissingKey (Some ("key present: " ++ u_text (fst kv))%string)]
        end
    | None => None
    end.

  Lemma entries_body : forall entries en e v t id kvs fr,
    eval en e = Some (v, t) -> auto_deref v = VMapV kvs ->
    Forall (fun kv => IHp (snd kv)) entries ->
    forallb (fun kv => pat_ok (e_units en) (snd kv)) entries = true ->
    concat_opt (map (spec_entry (e_caller en) (e_units en) id kvs) entries) = Some fr ->
    exists tr, run_list (map (entry_stmt e id) entries) en = Some (fr, tr).
  Proof.
    induction entries as [|kv r IH]; intros en e v t id kvs fr He Hv HIH Hok Hs.
    - cbn in Hs. inversion Hs; subst. eexists; reflexivity.
    - cbn [map concat_opt] in Hs.
      destruct (spec_entry (e_caller en) (e_units en) id kvs kv) as [f1|] eqn:E1; [|discriminate].
      destruct (concat_opt (map (spec_entry (e_caller en) (e_units en) id kvs) r)) as [f2|] eqn:E2; [|discriminate].
      inversion Hs; subst fr. inversion HIH as [|? ? Hkv Hr]; subst.
      cbn [forallb] in Hok. apply andb_prop in Hok as [Hpat Hok2].
      destruct (IH en e v t id kvs f2 He Hv Hr Hok2 E2) as (tr2 & H2).
      cbn [map run_list]. rewrite H2. destruct kv as [k vp]. unfold spec_entry in E1. cbn [fst snd] in *.
      unfold entry_stmt. cbn [exec]. rewrite He.
      destruct (ueval (e_caller en) k) as [kval|]; [|discriminate]. rewrite Hv.
      destruct (map_get kval kvs) as [w|].
      + destruct (Hkv (VBind NMapValue) (bind (BName NMapValue) (VRefV w) en) (VRefV w) [] f1) as (tr1 & H1);
          [exact Hpat|reflexivity|rewrite frontier_ref; exact E1|].
        rewrite H1. cbn. eexists; reflexivity.
      + inversion E1; subst f1. cbn. eexists; reflexivity.
  Qed.

  (* ---- assembling the cases ------------------------------------------------------ *)

  Lemma concat_opt_In {A} : forall (l : list (option (list A))) r x,
    concat_opt l = Some r -> In x l -> exists y, x = Some y.
  Proof.
    induction l as [|a l IH]; intros r x H Hin; [destruct Hin|]. cbn in H.
    destruct a as [a|]; [|discriminate]. destruct (concat_opt l) as [t|] eqn:E; [|discriminate].
    destruct Hin as [<-|Hin]; [eauto|eapply IH; [reflexivity|exact Hin]].
  Qed.

  Definition bad_root (r : option field_name) : bool :=
    match r with None => true | Some f => negb (field_name_index_ok f) end.

  Lemma roots_ok w u : forall (fields : list (fop * pat)),
    forallb (fun fp => ops_ok w (fst fp) && pat_ok u (snd fp)) fields = true ->
    existsb bad_root (map (fun fp => root_field_name (fst fp)) fields) = false.
  Proof.
    induction fields as [|fp r IH]; intros H; [reflexivity|]. cbn in *.
    apply andb_prop in H as [H1 H2]. apply andb_prop in H1 as [H1 _]. unfold ops_ok in H1.
    apply andb_prop in H1 as [H1 _]. rewrite (IH H2), orb_false_r. unfold bad_root.
    destruct (root_field_name (fst fp)); [rewrite H1; reflexivity|discriminate].
  Qed.

  Definition root_names (fields : list (fop * pat)) : list field_name :=
    dedup_fields [] (flat_map (fun r => match r with Some f => [f] | None => [] end)
                              (map (fun fp => root_field_name (fst fp)) fields)).

  Lemma root_names_repr fields fp f :
    In fp fields -> root_field_name (fst fp) = Some f ->
    exists f', In f' (root_names fields) /\ field_name_str f' = field_name_str f.
  Proof.
    intros Hin Hr. unfold root_names.
    destruct (dedup_repr (flat_map (fun r => match r with Some f => [f] | None => [] end)
                                   (map (fun fp => root_field_name (fst fp)) fields)) [] f) as [H|H].
    - apply in_flat_map. exists (Some f). split; [|left; reflexivity].
      apply in_map_iff. exists fp. split; [exact Hr|exact Hin].
    - discriminate.
    - exact H.
  Qed.

  Lemma root_names_In fields f :
    In f (root_names fields) -> exists fp, In fp fields /\ root_field_name (fst fp) = Some f.
  Proof.
    intros H. unfold root_names in H. apply dedup_In in H. apply in_flat_map in H as (r & Hr & Hf).
    apply in_map_iff in Hr as (fp & E & Hin). destruct r as [f0|]; [|destruct Hf].
    destruct Hf as [->|[]]. exists fp. split; [exact Hin|exact E].
  Qed.

  Lemma forallb_ext' {A} (f g : A -> bool) l : (forall x, f x = g x) -> forallb f l = forallb g l.
  Proof. intros H; induction l as [|x l IH]; cbn; [reflexivity|rewrite H, IH; reflexivity]. Qed.

  Lemma lists_all_eq fields vals :
    lists_all (root_names fields) vals =
    forallb (fun fv => existsb (fun fp => match root_field_name (fst fp) with
                                          | Some f => String.eqb (field_name_str f) (fst fv)
                                          | None => false end) fields) vals.
  Proof.
    unfold lists_all. apply forallb_ext'. intros fv. apply eq_true_iff_eq. rewrite !existsb_exists. split.
    - intros (f & Hin & E). destruct (root_names_In fields f Hin) as (fp & Hfp & Hr).
      exists fp. split; [exact Hfp|]. rewrite Hr. exact E.
    - intros (fp & Hin & E). destruct (root_field_name (fst fp)) as [f|] eqn:Er; [|discriminate].
      destruct (root_names_repr fields fp f Hin Er) as (f' & Hf' & Es). exists f'. split; [exact Hf'|]. rewrite Es. exact E.
  Qed.

  Theorem exec_expand_frontier : forall p, IHp p.
  Proof.
    induction p as
        [id x|id l lsp sv|id op osp x|id x parts|id pattern psp|id x|id|id c
        |id path rest fields IH|id path elems IH|id sp elems IH|id sp elems IH|id sp rest elems IH|id sp rest entries IH]
        using pat_ind'; intros e en v t fr Hok He Hf.
    - (* simple *)
      cbn [expand exec]. rewrite He. cbn [frontier] in Hf. eapply test_leaf; [exact He|reflexivity|exact Hf].
    - (* string *)
      cbn [expand exec]. rewrite He. cbn [frontier] in Hf.
      destruct (parse_str_lit l) as [s|]; [|discriminate]. destruct (peel v) eqn:Ev; try discriminate.
      unfold leaf in Hf. unfold test. destruct (String.eqb s s0); inversion Hf; subst.
      + eexists; reflexivity.
      + unfold do_push, mk_push; cbn. rewrite Ev. eexists; reflexivity.
    - (* comparison *)
      cbn [expand exec]. rewrite He. cbn [frontier] in Hf.
      destruct (ueval (e_caller en) x) as [w|]; [|discriminate].
      eapply test_leaf; [exact He| |exact Hf]. destruct op; reflexivity.
    - (* range *)
      cbn [expand exec]. rewrite He. cbn [frontier] in Hf. eapply test_leaf; [exact He|reflexivity|exact Hf].
    - (* regex *)
      cbn [expand exec]. rewrite He. cbn [frontier] in Hf. destruct (peel v); try discriminate.
      eapply test_leaf; [exact He|reflexivity|exact Hf].
    - (* like *)
      cbn [expand exec]. rewrite He. cbn [frontier] in Hf.
      destruct (ueval (e_caller en) x) as [w|]; [|discriminate].
      destruct (peel v); try discriminate. destruct (peel w); try discriminate.
      eapply test_leaf; [exact He|reflexivity|exact Hf].
    - (* wildcard *)
      cbn in *. inversion Hf; subst. eexists; reflexivity.
    - (* closure *)
      cbn [expand exec]. rewrite He. cbn [frontier] in Hf. eapply test_leaf; [exact He|reflexivity|exact Hf].
    - (* struct *)
      destruct path as [path|].
      + (* named *)
        cbn [pat_ok] in Hok. cbn [expand].
        change (existsb _ (map (fun fp => root_field_name (fst fp)) fields))
          with (existsb bad_root (map (fun fp => root_field_name (fst fp)) fields)).
        rewrite (roots_ok false _ fields Hok).
        change (dedup_fields [] _) with (root_names fields).
        cbn [exec]. rewrite He. cbn [frontier] in Hf.
        destruct (path_last path) as [nm|]; [|discriminate].
        destruct (peel v) eqn:Ev; try discriminate.
        * destruct (String.eqb name nm).
          -- rewrite lists_all_eq.
             match type of Hf with (if ?c then _ else _) = _ => destruct c; [|discriminate] end.
             change (map _ fields) with (map (spec_field (e_caller en) (e_units en) fields0) fields) in Hf.
             destruct (pair_fields_total (root_names fields) fields0) as (bs & Ebs).
             { intros f Hin. destruct (root_names_In fields f Hin) as (fp & Hfp & Hr).
               destruct (concat_opt_In _ _ (spec_field (e_caller en) (e_units en) fields0 fp) Hf) as (y & Ey);
                 [apply in_map; exact Hfp|].
               unfold spec_field in Ey. rewrite Hr in Ey. destruct (assoc (field_name_str f) fields0); [eauto|discriminate]. }
             rewrite Ebs. rewrite run_fix_eq.
             change (map _ fields) with (map field_stmt fields).
             destruct (fields_body fields (bind_many bs en) fields0 fr) as (tr & Hb); [|exact IH|exact Hok|exact Hf|].
             { intros fp f Hin Hr w Hw. cbn [bind_many e_bind].
               destruct (root_names_repr fields fp f Hin Hr) as (f' & Hf' & Es).
               destruct (pair_fields_lookup _ _ _ (e_bind en) Ebs f' Hf') as (w' & Hw' & Hl).
               rewrite Es in Hw', Hl. rewrite Hw in Hw'. inversion Hw'; subst. exact Hl. }
             rewrite Hb. cbn. eexists; reflexivity.
          -- inversion Hf; subst. rewrite <- Ev. apply test_shape. exact He.
        * inversion Hf; subst. rewrite <- Ev. apply test_shape. exact He.
      + (* wildcard struct *)
        cbn [pat_ok] in Hok. cbn [expand exec]. rewrite run_fix_eq. cbn [frontier] in Hf.
        change (map _ fields) with (map (wfield_stmt e) fields).
        eapply wfields_body; [exact He|exact IH|exact Hok|exact Hf].
    - (* enum *)
      destruct elems as [|el elems].
      + (* unit *)
        cbn [expand exec]. rewrite He. cbn [frontier] in Hf. cbn [pat_ok] in Hok. unfold is_binding_ident in Hok.
        destruct (path_last path) as [nm|] eqn:Epl; [|discriminate].
        destruct (path_single path && negb (existsb (String.eqb nm) (e_units en))) eqn:Eb.
        * (* an identifier that would be a binding: excluded by pat_ok (known finding) *)
          apply negb_true_iff in Hok. congruence.
        * destruct (peel v) eqn:Ev; try discriminate.
          -- eapply test_leaf; [exact He|reflexivity|exact Hf].
          -- destruct args; eapply test_leaf; [exact He|reflexivity|exact Hf|exact He|reflexivity|exact Hf].
      + (* tuple variant *)
        cbn [expand]. set (els := el :: elems) in *. cbn [exec]. rewrite He.
        unfold els in Hf. rewrite frontier_enum in Hf. fold els in Hf.
        destruct (path_last path) as [nm|]; [|discriminate].
        destruct (peel v) eqn:Ev; try discriminate.
        * inversion Hf; subst. rewrite <- Ev. apply test_shape. exact He.
        * destruct (String.eqb name nm).
          -- pose proof (spec_elems_length _ _ _ _ _ Hf) as Hlen.
             destruct (pair_opts_total NElem els args 0 Hlen) as (bs & Ebs).
             unfold mapi. change (mapi_from _ 0 els) with (mapi_from binder_of 0 els) at 1. rewrite Ebs. rewrite run_fix_eq.
             change (mapi_from _ 0 els) with (mapi_from (elem_stmts NElem) 0 els).
             destruct (elems_body NElem els args 0 (bind_many bs en) fr) as (tr & Hb).
             ++ intros k el' a Hk Ha Hw. cbn [bind_many e_bind].
                eapply (pair_opts_lookup NElem); [intros; reflexivity|exact Ebs|exact Hk|exact Ha|exact Hw].
             ++ exact IH.
             ++ unfold els. exact Hok.
             ++ exact Hf.
             ++ rewrite Hb. cbn. eexists; reflexivity.
          -- inversion Hf; subst. rewrite <- Ev. apply test_shape. exact He.
    - (* tuple *)
      cbn [expand exec]. rewrite He. rewrite frontier_tuple in Hf.
      destruct (peel v) eqn:Ev; try discriminate.
      pose proof (spec_elems_length _ _ _ _ _ Hf) as Hlen.
      destruct (pair_opts_total NTupleElem elems vs 0 Hlen) as (bs & Ebs).
      unfold mapi. change (mapi_from _ 0 elems) with (mapi_from binder_of 0 elems) at 1. rewrite Ebs. rewrite run_fix_eq.
      change (mapi_from _ 0 elems) with (mapi_from (elem_stmts NTupleElem) 0 elems).
      destruct (elems_body NTupleElem elems vs 0 (bind_many bs en) fr) as (tr & Hb).
      + intros k el' a Hk Ha Hw. cbn [bind_many e_bind].
        eapply (pair_opts_lookup NTupleElem); [intros; reflexivity|exact Ebs|exact Hk|exact Ha|exact Hw].
      + exact IH.
      + exact Hok.
      + exact Hf.
      + rewrite Hb. cbn. eexists; reflexivity.
    - (* slice *)
      cbn [expand exec]. rewrite He. rewrite frontier_slice in Hf. cbv zeta in Hf.
      destruct (elements_of v) as [vs|]; [|discriminate].
      unfold mapi, slice_match.
      change (fun (i : nat) (el : pat) => if is_rest_range el then SPRest else if is_wild el then SPWild else SPBind i) with part_of.
      change (fun (i : nat) (el : pat) => if is_rest_range el || is_wild el then [] else [expand j el (VBind (NElem i))]) with slice_stmts.
      rewrite count_rest_parts, !mapi_from_length.
      destruct (List.length (filter is_rest_range elems)) as [|[|n]] eqn:En; [| |discriminate].
      + (* no `..` *)
        rewrite Nat.sub_0_r in Hf. destruct (Nat.eqb (List.length vs) (List.length elems)) eqn:El.
        * apply Nat.eqb_eq in El.
          destruct (pair_parts_total elems vs 0) as (bs & Ebs); [destruct (filter is_rest_range elems); [reflexivity|discriminate]|exact El|].
          rewrite Ebs, run_fix_eq. destruct (pair_parts_keys _ _ _ _ Ebs) as (_ & Hnd).
          destruct (slice_exact_body elems vs 0 (bind_many bs en) bs fr Ebs) as (tr & Hb);
            [intros k w Hin; cbn [bind_many e_bind]; apply lookup_in; assumption|exact IH|exact Hok|exact Hf|].
          rewrite Hb. cbn. eexists; reflexivity.
        * inversion Hf; subst. unfold test, do_push, mk_push; cbn. rewrite He. cbn. eexists; reflexivity.
      + (* one `..` *)
        destruct (Nat.leb (List.length elems - 1) (List.length vs)) eqn:El.
        * apply Nat.leb_le in El.
          destruct (pair_parts_rest_total elems vs 0 En El) as (bs & Ebs).
          rewrite Ebs, run_fix_eq. destruct (pair_parts_rest_keys _ _ _ _ Ebs) as (_ & Hnd).
          destruct (slice_rest_body elems vs 0 (bind_many bs en) bs fr Ebs) as (tr & Hb);
            [intros k w Hin; cbn [bind_many e_bind]; apply lookup_in; assumption|exact IH|exact Hok|exact Hf|].
          rewrite Hb. cbn. eexists; reflexivity.
        * inversion Hf; subst. unfold test, do_push, mk_push; cbn. rewrite He. cbn. eexists; reflexivity.
    - (* set *)
      cbn [expand exec]. rewrite He. cbn [frontier] in Hf.
      destruct (elements_of v) as [vs|]; [|discriminate].
      rewrite rows_fix_eq.
      change (map (fun el => all_some (map _ vs)) elems)
        with (map (fun el => all_some (map (spec_cell (e_caller en) (e_units en) el) vs)) elems) in Hf.
      destruct (all_some (map (fun el => all_some (map (spec_cell (e_caller en) (e_units en) el) vs)) elems)) as [M|] eqn:EM; [|discriminate].
      rewrite (set_matrix en vs elems M IH Hok EM).
      rewrite set_match_is_brute_force.
      destruct (brute_force (List.length vs) rest M); inversion Hf; subst; eexists; reflexivity.
    - (* map *)
      cbn [expand exec]. rewrite run_fix_eq, run_list_app. cbn [frontier] in Hf.
      destruct (auto_deref v) as [| | | | | | | | | | | |kvs] eqn:Ev; try discriminate.
      change (map _ entries) with (map (spec_entry (e_caller en) (e_units en) id kvs) entries) in Hf.
      destruct (concat_opt (map (spec_entry (e_caller en) (e_units en) id kvs) entries)) as [es|] eqn:Ees; [|discriminate].
      change (map _ entries) with (map (entry_stmt e id) entries).
      destruct (entries_body entries en e v t id kvs es He Ev IH Hok Ees) as (tr & Hb). rewrite Hb.
      destruct rest; cbn [orb] in Hf.
      + inversion Hf; subst. cbn. eexists; reflexivity.
      + cbn [run_list exec]. rewrite He, Ev. unfold test.
        destruct (Nat.eqb (List.length kvs) (List.length entries)); inversion Hf; subst.
        * cbn. eexists; reflexivity.
        * unfold do_push, mk_push; cbn. rewrite He, Ev. cbn. eexists; reflexivity.
  Qed.
End Master.

Print Assumptions exec_expand_frontier.
