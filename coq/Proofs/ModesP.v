(* Proofs about Model/Modes.v (C09; acceptance half of C11). *)
From ASModel Require Import Base Tokens Report Ast IR Expand Modes.
From ASProofs Require Import PatInd.

Definition no_move (l : list use) : Prop := Forall (fun u => u <> UMove) l.

Lemma no_move_app a b : no_move a -> no_move b -> no_move (a ++ b).
Proof. intros; apply Forall_app; split; assumption. Qed.

Lemma no_move_flat {A} (f : A -> list use) l : Forall (fun x => no_move (f x)) l -> no_move (flat_map f l).
Proof. intros H; induction H; cbn; [constructor|apply no_move_app; assumption]. Qed.

Lemma push_no_move sp id a x : no_move (push_uses (mk_push sp id a x)).
Proof. unfold push_uses; cbn. destruct a; repeat constructor; discriminate. Qed.

Lemma with_tail_no_move j ops base noops fpat :
  (forall e, no_move (stmt_uses (expand j fpat e))) ->
  no_move (stmt_uses (with_tail ops base noops (expand j fpat))).
Proof.
  intros H. unfold with_tail. destruct (tail_operations ops) as [|t|]; cbn; try apply H; try constructor.
  destruct (ops_index_ok t); [apply H|constructor].
Qed.

Lemma mapi_from_flat_no_move {A} (f : nat -> A -> list stmt) : forall (l : list A) i,
  Forall (fun x => forall k, no_move (flat_map stmt_uses (f k x))) l ->
  no_move (flat_map stmt_uses (flat_map (fun x => x) (mapi_from f i l))).
Proof.
  induction l as [|x l IH]; intros i H; cbn; [constructor|].
  inversion H as [|? ? Hx Hl]; subst. rewrite flat_map_app. apply no_move_app; [apply Hx|apply IH; exact Hl].
Qed.

Ltac nm := repeat (first [apply Forall_cons; [discriminate|] | apply Forall_nil | apply push_no_move]).

(* C09: outside closure patterns and identifiers used as values, no template passes or
   binds the value expression by value — at the root and at every nested position *)
Theorem expansion_never_moves : forall j p e,
  by_value_free p = true -> no_move (stmt_uses (expand j p e)).
Proof.
  intros j p; induction p as
      [id x|id l s v|id op s x|id x parts|id x s|id x|id|id c
      |id path rest fields IH|id path elems IH|id sp elems IH|id sp elems IH|id sp rest elems IH|id sp rest entries IH]
      using pat_ind'; intros e Hbv; cbn [expand stmt_uses]; try (nm; fail).
  - (* struct *)
    cbn [by_value_free] in Hbv. destruct path as [path|].
    + destruct (existsb _ _); [constructor|]. cbn [stmt_uses]. constructor; [discriminate|].
      apply no_move_app; [|apply push_no_move].
      rewrite flat_map_concat_map, map_map, <- flat_map_concat_map. apply no_move_flat.
      apply Forall_forall. intros [ops fpat] Hin. cbn.
      destruct (root_field_name ops); [|constructor]. apply with_tail_no_move. intros e'.
      apply (proj1 (Forall_forall _ _) IH (ops, fpat) Hin). exact (proj1 (forallb_forall _ _) Hbv (ops, fpat) Hin).
    + cbn [stmt_uses]. rewrite flat_map_concat_map, map_map, <- flat_map_concat_map. apply no_move_flat.
      apply Forall_forall. intros [ops fpat] Hin. cbn.
      destruct (root_field_name ops); [|constructor]. destruct (field_name_index_ok f); [|constructor].
      apply with_tail_no_move. intros e'.
      apply (proj1 (Forall_forall _ _) IH (ops, fpat) Hin). exact (proj1 (forallb_forall _ _) Hbv (ops, fpat) Hin).
  - (* enum *)
    destruct elems as [|el elems].
    + cbn [by_value_free] in Hbv. cbn [stmt_uses]. apply negb_true_iff in Hbv. rewrite Hbv. nm.
    + cbn [by_value_free] in Hbv. cbn [stmt_uses]. constructor; [discriminate|]. apply no_move_app; [|apply push_no_move].
      unfold mapi. apply mapi_from_flat_no_move. apply Forall_forall. intros [ops ep] Hin k. cbn.
      destruct (is_wild ep); [constructor|].
      assert (Hp : forall e', no_move (stmt_uses (expand j ep e'))).
      { intros e'. apply (proj1 (Forall_forall _ _) IH (ops, ep) Hin). exact (proj1 (forallb_forall _ _) Hbv (ops, ep) Hin). }
      destruct ops; cbn; rewrite app_nil_r; [apply with_tail_no_move; exact Hp|apply Hp].
  - (* tuple *)
    cbn [by_value_free] in Hbv. constructor; [discriminate|].
    unfold mapi. apply mapi_from_flat_no_move. apply Forall_forall. intros [ops ep] Hin k. cbn.
    destruct (is_wild ep); [constructor|].
    assert (Hp : forall e', no_move (stmt_uses (expand j ep e'))).
    { intros e'. apply (proj1 (Forall_forall _ _) IH (ops, ep) Hin). exact (proj1 (forallb_forall _ _) Hbv (ops, ep) Hin). }
    destruct ops; cbn; rewrite app_nil_r; [apply with_tail_no_move; exact Hp|apply Hp].
  - (* slice *)
    cbn [by_value_free] in Hbv. constructor; [discriminate|]. apply no_move_app; [|apply push_no_move].
    unfold mapi. apply mapi_from_flat_no_move. apply Forall_forall. intros el Hin k.
    destruct (is_rest_range el || is_wild el); cbn; [constructor|]. rewrite app_nil_r.
    apply (proj1 (Forall_forall _ _) IH el Hin). exact (proj1 (forallb_forall _ _) Hbv el Hin).
  - (* set *)
    cbn [by_value_free] in Hbv. constructor; [discriminate|].
    rewrite flat_map_concat_map, map_map, <- flat_map_concat_map. apply no_move_flat.
    apply Forall_forall. intros el Hin. apply (proj1 (Forall_forall _ _) IH el Hin). exact (proj1 (forallb_forall _ _) Hbv el Hin).
  - (* map *)
    cbn [by_value_free] in Hbv. rewrite flat_map_app. apply no_move_app.
    + destruct rest; cbn; nm.
    + rewrite flat_map_concat_map, map_map, <- flat_map_concat_map. apply no_move_flat.
      apply Forall_forall. intros [k vp] Hin. cbn. constructor; [discriminate|]. apply no_move_app; [|constructor].
      apply (proj1 (Forall_forall _ _) IH (k, vp) Hin). exact (proj1 (forallb_forall _ _) Hbv (k, vp) Hin).
Qed.
