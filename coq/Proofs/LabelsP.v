(* What a report says about the expected side, traced from the written pattern
   through the node table (Nodes.v) and the expander (Expand.v) to the label
   (Report.v).  Property C19. *)
From ASModel Require Import Base Tokens Report Ast IR Expand Nodes.
From ASProofs Require Import PatInd NodesP ReportP.
Local Open Scope string_scope.

(* the node generated for a pattern itself *)
Definition own_node (j : bool) (p : pat) (parent : option N) : option node :=
  last (map Some (gen_nodes j p parent)) None.

Lemma own_node_app j p parent pre nd : gen_nodes j p parent = (pre ++ [nd])%list -> own_node j p parent = Some nd.
Proof.
  intros E. unfold own_node. rewrite E, map_app. cbn [map].
  induction (map Some pre) as [|x l IH]; [reflexivity|]. cbn. destruct (l ++ [Some nd])%list eqn:El; [destruct l; discriminate|exact IH].
Qed.

Definition written_items (elems : list pat) : list pat := filter (fun el => negb (is_rest_range el)) elems.
Definition has_rest (elems : list pat) : bool := existsb is_rest_range elems.

Lemma slice_own_node j id sp elems parent :
  exists nd, own_node j (PSlice id sp elems) parent = Some nd /\
             n_desc nd = NDSlice (map pat_id (written_items elems)) (has_rest elems).
Proof. eexists; split; [eapply own_node_app; cbn [gen_nodes]; reflexivity|reflexivity]. Qed.

(* `..` is never counted as an element, and a partial slice pattern is never
   described as exact *)
Theorem slice_label : forall j id sp elems parent actual,
  exists nd, own_node j (PSlice id sp elems) parent = Some nd /\
    error_label (node_kind_of (n_desc nd)) actual None =
      if has_rest elems then "slice pattern mismatch, got " ++ actual
      else let n := List.length (written_items elems) in
           "expected slice with " ++ nat_to_string n ++ " " ++ (if Nat.eqb n 1 then "element" else "elements")
           ++ ", got " ++ actual.
Proof.
  intros. destruct (slice_own_node j id sp elems parent) as (nd & H & D). exists nd. split; [exact H|].
  rewrite D. cbn [node_kind_of error_label]. rewrite map_length. reflexivity.
Qed.

Theorem set_label : forall j id sp rest elems parent actual e,
  exists nd, own_node j (PSet id sp rest elems) parent = Some nd /\
    error_label (node_kind_of (n_desc nd)) actual e =
      (if rest then "set pattern mismatch, got " else "set pattern mismatch (exact), got ") ++ actual.
Proof.
  intros. eexists; split; [eapply own_node_app; cbn [gen_nodes]; reflexivity|].
  cbn [n_desc node_kind_of]. apply label_set_exact_iff.
Qed.

Theorem variant_label : forall j id path elems parent actual e,
  exists nd, own_node j (PEnum id path elems) parent = Some nd /\
    error_label (node_kind_of (n_desc nd)) actual e =
      "expected variant " ++ replace_colons (p_text path)
      ++ (match elems with [] => "" | _ => "(...)" end) ++ ", got " ++ actual.
Proof.
  intros. eexists; split; [eapply own_node_app; cbn [gen_nodes]; reflexivity|].
  cbn [n_desc node_kind_of]. rewrite label_variant. destruct elems; reflexivity.
Qed.

(* `== x`: the expected text pushed is the operand as written, and it is what the label shows *)
Theorem eq_expected : forall j id osp x e parent actual,
  (exists sp pu, expand j (PCmp id OpEq osp x) e = SCmp sp OpEq e x pu /\ ps_expected pu = EText (u_text x)) /\
  exists nd, own_node j (PCmp id OpEq osp x) parent = Some nd /\
    error_label (node_kind_of (n_desc nd)) actual (Some (u_text x)) = "expected " ++ u_text x ++ ", got " ++ actual.
Proof.
  intros. split; [eexists; eexists; split; reflexivity|].
  eexists; split; [apply (own_node_app _ _ _ []); cbn [gen_nodes]; reflexivity|reflexivity].
Qed.

(* maps: the expected entry count is the number of written entries, the expected
   key is the written key *)
Theorem map_expected : forall j id sp entries e,
  exists body, expand j (PMap id sp false entries) e =
    SSeq (SMapLen (match entries with [] => SCall | (k, _) :: _ => expr_span j k end) e (List.length entries)
                  (mk_push (match entries with [] => SCall | (k, _) :: _ => expr_span j k end) id (AMapLen e)
                           (EEntries (List.length entries))) :: body) /\
    Forall2 (fun kv s => exists sp' b, s = SMapGet sp' e (fst kv) b (mk_push sp' id AMissingKey (EKeyPresent (u_text (fst kv)))))
            entries body.
Proof.
  intros. eexists; split; [cbn [expand]; reflexivity|].
  induction entries as [|[k vp] l IH]; cbn; constructor; [eexists; eexists; reflexivity|exact IH].
Qed.
