(* Proofs about Model/Binders.v (property C07). *)
From ASModel Require Import Base Tokens Report Ast IR Nodes Expand Print Binders.
From ASProofs Require Import PatInd.

Lemma name_reserved n : reserved (name_str n) = true.
Proof. destruct n; reflexivity. Qed.

Lemma field_binder_reserved f : reserved (field_binder_str f) = true.
Proof. reflexivity. Qed.

Definition all_reserved (l : list string) : Prop := Forall (fun b => reserved b = true) l.

Lemma all_reserved_app a b : all_reserved a -> all_reserved b -> all_reserved (a ++ b).
Proof. intros; apply Forall_app; split; assumption. Qed.

Lemma all_reserved_flat {A} (f : A -> list string) l :
  Forall (fun x => all_reserved (f x)) l -> all_reserved (flat_map f l).
Proof. intros H; induction H; cbn; [constructor|apply all_reserved_app; assumption]. Qed.

Lemma opt_binder_reserved pre b : (forall i, reserved (name_str (pre i)) = true) -> all_reserved (opt_binder pre b).
Proof. intros H; destruct b; cbn; repeat constructor. apply H. Qed.

Lemma with_tail_binders j ops base noops fpat :
  (forall e, all_reserved (stmt_binders (expand j fpat e))) ->
  all_reserved (stmt_binders (with_tail ops base noops (expand j fpat))).
Proof.
  intros H. unfold with_tail. destruct (tail_operations ops) as [|t|]; cbn; try apply H; try constructor.
  destruct (ops_index_ok t); [apply H|constructor].
Qed.

Lemma mapi_from_flat_reserved {A} (f : nat -> A -> list stmt) : forall (l : list A) i,
  Forall (fun x => forall k, all_reserved (flat_map stmt_binders (f k x))) l ->
  all_reserved (flat_map stmt_binders (flat_map (fun x => x) (mapi_from f i l))).
Proof.
  induction l as [|x l IH]; intros i H; cbn; [constructor|].
  inversion H as [|? ? Hx Hl]; subst. rewrite flat_map_app.
  apply all_reserved_app; [apply Hx|apply IH; exact Hl].
Qed.

Lemma mapi_from_binders_reserved {A} (f : nat -> A -> option nat) pre : forall (l : list A) i,
  (forall i, reserved (name_str (pre i)) = true) ->
  all_reserved (flat_map (opt_binder pre) (mapi_from f i l)).
Proof.
  induction l as [|x l IH]; intros i H; cbn; [constructor|].
  apply all_reserved_app; [apply opt_binder_reserved; exact H|apply IH; exact H].
Qed.

(* every identifier the expansion binds is reserved — for every pattern, at every depth *)
Theorem binders_reserved : forall j p e, all_reserved (stmt_binders (expand j p e)).
Proof.
  intros j p; induction p as
      [id x|id l s v|id op s x|id x parts|id x s|id x|id|id c
      |id path rest fields IH|id path elems IH|id sp elems IH|id sp elems IH|id sp rest elems IH|id sp rest entries IH]
      using pat_ind'; intros e; cbn [expand stmt_binders]; try (repeat constructor).
  - (* struct *)
    destruct path as [path|].
    + destruct (existsb _ _); [constructor|]. cbn [stmt_binders]. apply all_reserved_app.
      * apply Forall_map. apply Forall_forall. intros f _. apply field_binder_reserved.
      * rewrite flat_map_concat_map, map_map, <- flat_map_concat_map. apply all_reserved_flat.
        eapply Forall_impl'; [|exact IH]. cbn. intros [ops fpat] Hx. cbn in *.
        destruct (root_field_name ops); [|constructor]. apply with_tail_binders. exact Hx.
    + cbn [stmt_binders]. rewrite flat_map_concat_map, map_map, <- flat_map_concat_map. apply all_reserved_flat.
      eapply Forall_impl'; [|exact IH]. cbn. intros [ops fpat] Hx. cbn in *.
      destruct (root_field_name ops); [|constructor]. destruct (field_name_index_ok f); [|constructor].
      apply with_tail_binders. exact Hx.
  - (* enum *)
    destruct elems as [|el elems]; [constructor|]. cbn [stmt_binders]. apply all_reserved_app.
    + unfold mapi. apply mapi_from_binders_reserved. intros i; reflexivity.
    + unfold mapi. apply mapi_from_flat_reserved. eapply Forall_impl'; [|exact IH]. cbn. intros [ops ep] Hx k. cbn in *.
      destruct (is_wild ep); [constructor|]. destruct ops; cbn; rewrite app_nil_r; [apply with_tail_binders; exact Hx|apply Hx].
  - (* tuple *)
    apply all_reserved_app.
    + unfold mapi. apply mapi_from_binders_reserved. intros i; reflexivity.
    + unfold mapi. apply mapi_from_flat_reserved. eapply Forall_impl'; [|exact IH]. cbn. intros [ops ep] Hx k. cbn in *.
      destruct (is_wild ep); [constructor|]. destruct ops; cbn; rewrite app_nil_r; [apply with_tail_binders; exact Hx|apply Hx].
  - (* slice *)
    apply all_reserved_app.
    + unfold mapi. generalize 0. induction elems as [|el elems IHl]; intros i; cbn; [constructor|].
      inversion IH; subst. apply all_reserved_app; [|apply IHl; assumption].
      destruct (is_rest_range el); [constructor|]. destruct (is_wild el); repeat constructor.
    + unfold mapi. apply mapi_from_flat_reserved. eapply Forall_impl'; [|exact IH]. cbn. intros el Hx k.
      destruct (is_rest_range el); cbn; [constructor|]. destruct (is_wild el); cbn; [constructor|]. rewrite app_nil_r. apply Hx.
  - (* set *)
    apply all_reserved_app; [|repeat constructor].
    unfold mapi. generalize 0. induction elems as [|el elems IHl]; intros i; cbn; [constructor|].
    inversion IH; subst. repeat (constructor; [reflexivity|]).
    apply all_reserved_app; [auto|apply IHl; assumption].
  - (* map *)
    rewrite flat_map_app. apply all_reserved_app.
    + destruct rest; cbn; constructor.
    + rewrite flat_map_concat_map, map_map, <- flat_map_concat_map. apply all_reserved_flat.
      eapply Forall_impl'; [|exact IH]. cbn. intros [k vp] Hx. cbn in *. constructor; [reflexivity|apply Hx].
Qed.

(* Consequence: a caller identifier that is not reserved is never rebound by the
   expansion, wherever it occurs. *)
Corollary no_capture : forall j p e x,
  reserved x = false -> ~ In x (stmt_binders (expand j p e)).
Proof.
  intros j p e x Hx Hin. pose proof (binders_reserved j p e) as H.
  eapply Forall_forall in H; [|exact Hin]. congruence.
Qed.
