(* Proofs about Model/Nodes.v and the node references of Model/Expand.v (C14, C19). *)
From ASModel Require Import Base Tokens Report Ast IR Expand Nodes.
From ASProofs Require Import PatInd.

(* ---- one definition per node, in post-order ----------------------------- *)

Lemma gen_nodes_ids : forall j p parent, map n_id (gen_nodes j p parent) = node_ids p.
Proof.
  intros j p; induction p as
      [id e|id l s v|id op s e|id e parts|id x s|id e|id|id c
      |id path rest fields IH|id path elems IH|id sp elems IH|id sp elems IH|id sp rest elems IH|id sp rest entries IH]
      using pat_ind'; intros parent; cbn [gen_nodes node_ids pat_id map]; try reflexivity;
    rewrite map_app; cbn [map n_id]; f_equal; rewrite flat_map_concat_map, concat_map, map_map,
      <- flat_map_concat_map; apply flat_map_ext_Forall;
    (eapply Forall_impl'; [|exact IH]); cbn; intros x Hx; try (apply Hx).
  destruct (is_rest_range x); [reflexivity|apply Hx].
Qed.

(* the last definition is the node of the pattern itself, with the given parent,
   its own location and id *)
Lemma gen_nodes_last : forall j p parent,
  exists pre nd, gen_nodes j p parent = pre ++ [nd] /\
                 n_id nd = pat_id p /\ n_parent nd = parent /\ n_loc nd = location j p.
Proof.
  intros j p parent.
  destruct p; cbn [gen_nodes]; try (exists []; eexists; split; [reflexivity|repeat split]);
    (eexists; eexists; split; [reflexivity|repeat split]).
Qed.

(* what the node of a composite lists as its children: exactly the written
   children that have nodes, in written order, and the rest flag as written *)
Definition desc_children (d : node_desc) : list N :=
  match d with
  | NDSlice items _ | NDSet items _ | NDTuple items => items
  | NDMap es _ | NDStruct _ es _ => map snd es
  | NDEnum _ (Some items) => items
  | _ => []
  end.

Definition desc_rest (d : node_desc) : option bool :=
  match d with
  | NDSlice _ r | NDSet _ r | NDMap _ r | NDStruct _ _ r => Some r
  | _ => None
  end.

Definition pat_rest (p : pat) : option bool :=
  match p with
  | PStruct _ _ rest _ | PSet _ _ rest _ | PMap _ _ rest _ => Some rest
  | PSlice _ _ elems => Some (existsb is_rest_range elems)
  | _ => None
  end.

Lemma gen_nodes_root_desc : forall j p parent,
  exists pre nd, gen_nodes j p parent = pre ++ [nd] /\
                 desc_children (n_desc nd) = map pat_id (node_children p) /\
                 desc_rest (n_desc nd) = pat_rest p.
Proof.
  intros j p parent.
  destruct p; cbn [gen_nodes]; try (exists []; eexists; split; [reflexivity|split; reflexivity]);
    (eexists; eexists; split; [reflexivity|]); cbn [n_desc desc_children desc_rest pat_rest node_children children];
    rewrite ?map_map; try (split; reflexivity).
  destruct elems; split; cbn; try reflexivity.
Qed.

(* every child's node records this node as its parent *)
Lemma gen_nodes_child_parent : forall j p parent c,
  In c (node_children p) ->
  exists pre nd post, gen_nodes j p parent = pre ++ nd :: post /\
                      n_id nd = pat_id c /\ n_parent nd = Some (pat_id p).
Proof.
  intros j p parent c Hin.
  assert (Hgen : forall (A : Type) (f : A -> pat) (keep : A -> bool) (l : list A) (tailn : list node),
             (exists a, In a l /\ keep a = true /\ f a = c) ->
             exists pre nd post,
               flat_map (fun a => if keep a then gen_nodes j (f a) (Some (pat_id p)) else []) l ++ tailn
               = pre ++ nd :: post /\ n_id nd = pat_id c /\ n_parent nd = Some (pat_id p)).
  { intros A f keep l tailn (a & Ha & Hk & Hf). induction l as [|x l IH]; [destruct Ha|].
    destruct Ha as [->|Ha].
    - cbn [flat_map]. rewrite Hk. destruct (gen_nodes_last j (f a) (Some (pat_id p))) as (pre & nd & E & Hid & Hp & _).
      rewrite E. exists pre, nd, (flat_map (fun a0 => if keep a0 then gen_nodes j (f a0) (Some (pat_id p)) else []) l ++ tailn).
      rewrite <- !app_assoc. cbn. rewrite Hf in Hid. repeat split; assumption.
    - destruct (IH Ha) as (pre & nd & post & E & H1 & H2). cbn [flat_map]. rewrite <- app_assoc, E.
      exists ((if keep x then gen_nodes j (f x) (Some (pat_id p)) else []) ++ pre), nd, post.
      rewrite <- app_assoc. repeat split; assumption. }
  destruct p; cbn [node_children children] in Hin; try (destruct Hin); cbn [gen_nodes pat_id].
  - (* struct *) apply in_map_iff in Hin as (fp & Hf & Hfp).
    specialize (Hgen _ (fun fp : fop * pat => snd fp) (fun _ => true) fields).
    cbn in Hgen. apply Hgen. exists fp; auto.
  - apply in_map_iff in Hin as (el & Hf & Hel).
    specialize (Hgen _ (fun el : option fop * pat => snd el) (fun _ => true) elems). cbn in Hgen. apply Hgen. exists el; auto.
  - apply in_map_iff in Hin as (el & Hf & Hel).
    specialize (Hgen _ (fun el : option fop * pat => snd el) (fun _ => true) elems). cbn in Hgen. apply Hgen. exists el; auto.
  - apply filter_In in Hin as (Hel & Hk).
    specialize (Hgen _ (fun el : pat => el) (fun el => negb (is_rest_range el)) elems).
    cbn in Hgen.
    replace (flat_map (fun el : pat => if is_rest_range el then [] else gen_nodes j el (Some id)) elems)
      with (flat_map (fun a : pat => if negb (is_rest_range a) then gen_nodes j a (Some id) else []) elems)
      by (apply flat_map_ext; intros a; destruct (is_rest_range a); reflexivity).
    apply Hgen. exists c; auto.
  - specialize (Hgen _ (fun el : pat => el) (fun _ => true) elems). cbn in Hgen. apply Hgen. exists c; auto.
  - apply in_map_iff in Hin as (kv & Hf & Hkv).
    specialize (Hgen _ (fun kv : uexpr * pat => snd kv) (fun _ => true) entries). cbn in Hgen. apply Hgen. exists kv; auto.
Qed.

(* ---- the assertion code refers only to defined nodes --------------------- *)

Fixpoint stmt_refs (s : stmt) : list N :=
  match s with
  | SNop | SPanic _ => []
  | SSimple _ _ _ p | SString _ _ _ _ p | SCmp _ _ _ _ p | SUnit _ _ _ p | SRange _ _ _ _ p
  | SRegex _ _ _ p | SLike _ _ _ p | SClosure _ _ _ p | SMapLen _ _ _ p => [ps_node p]
  | SVariant _ _ _ _ body p | SStruct _ _ _ _ _ body p | SSlice _ _ body p => flat_map stmt_refs body ++ [ps_node p]
  | SSeq body | STuple _ _ body => flat_map stmt_refs body
  | SMapGet _ _ _ body missing => stmt_refs body ++ [ps_node missing]
  | SSet _ preds _ node => flat_map stmt_refs preds ++ [node]
  end.

Lemma incl_flat_map {A B} (f : A -> list B) (g : A -> list B) (l : list A) :
  Forall (fun x => incl (f x) (g x)) l -> incl (flat_map f l) (flat_map g l).
Proof.
  intros H; induction H as [|x l Hx H IH]; cbn; [apply incl_refl|].
  apply incl_app; [apply incl_appl; exact Hx|apply incl_appr; exact IH].
Qed.

Lemma with_tail_refs j ops base noops fpat ids :
  (forall e, incl (stmt_refs (expand j fpat e)) ids) ->
  incl (stmt_refs (with_tail ops base noops (expand j fpat))) ids.
Proof.
  intros H. unfold with_tail. destruct (tail_operations ops) as [|t|]; cbn; try apply H; try apply incl_nil_l.
  destruct (ops_index_ok t); [apply H|apply incl_nil_l].
Qed.

Lemma mapi_from_flat_incl {A} (f : nat -> A -> list stmt) (g : A -> list N) : forall (l : list A) i,
  Forall (fun x => forall k, incl (flat_map stmt_refs (f k x)) (g x)) l ->
  incl (flat_map stmt_refs (flat_map (fun x => x) (mapi_from f i l))) (flat_map g l).
Proof.
  induction l as [|x l IH]; intros i H; cbn; [apply incl_refl|].
  inversion H as [|? ? Hx Hl]; subst. rewrite flat_map_app.
  apply incl_app; [apply incl_appl; apply Hx|apply incl_appr; apply IH; exact Hl].
Qed.

Theorem expand_refs_defined : forall j p e, incl (stmt_refs (expand j p e)) (node_ids p).
Proof.
  intros j p; induction p as
      [id x|id l s v|id op s x|id x parts|id x s|id x|id|id c
      |id path rest fields IH|id path elems IH|id sp elems IH|id sp elems IH|id sp rest elems IH|id sp rest entries IH]
      using pat_ind'; intros e; cbn [expand node_ids pat_id];
    try (cbn; apply incl_refl); try (cbn; apply incl_nil_l).
  - (* struct *)
    destruct path as [path|].
    + destruct (existsb _ _); [cbn; apply incl_nil_l|]. cbn [stmt_refs ps_node mk_push].
      apply incl_app; [apply incl_appl|apply incl_appr; apply incl_refl].
      rewrite flat_map_concat_map, map_map, <- flat_map_concat_map.
      apply incl_flat_map. eapply Forall_impl'; [|exact IH]. cbn. intros [ops fpat] Hx. cbn in *.
      destruct (root_field_name ops); [|cbn; apply incl_nil_l]. apply with_tail_refs. exact Hx.
    + cbn [stmt_refs]. apply incl_appl.
      rewrite flat_map_concat_map, map_map, <- flat_map_concat_map.
      apply incl_flat_map. eapply Forall_impl'; [|exact IH]. cbn. intros [ops fpat] Hx. cbn in *.
      destruct (root_field_name ops); [|cbn; apply incl_nil_l].
      destruct (field_name_index_ok f); [|cbn; apply incl_nil_l]. apply with_tail_refs. exact Hx.
  - (* enum *)
    destruct elems as [|el elems]; [cbn; apply incl_refl|].
    cbn [stmt_refs ps_node mk_push]. apply incl_app; [apply incl_appl|apply incl_appr; apply incl_refl].
    unfold mapi. apply mapi_from_flat_incl. eapply Forall_impl'; [|exact IH]. cbn. intros [ops ep] Hx k. cbn in *.
    destruct (is_wild ep); [cbn; apply incl_nil_l|]. destruct ops; cbn; rewrite app_nil_r; [apply with_tail_refs; exact Hx|apply Hx].
  - (* tuple *)
    cbn [stmt_refs]. apply incl_appl.
    unfold mapi. apply mapi_from_flat_incl. eapply Forall_impl'; [|exact IH]. cbn. intros [ops ep] Hx k. cbn in *.
    destruct (is_wild ep); [cbn; apply incl_nil_l|]. destruct ops; cbn; rewrite app_nil_r; [apply with_tail_refs; exact Hx|apply Hx].
  - (* slice *)
    cbn [stmt_refs ps_node mk_push]. apply incl_app; [apply incl_appl|apply incl_appr; apply incl_refl].
    unfold mapi. apply mapi_from_flat_incl. eapply Forall_impl'; [|exact IH]. cbn. intros el Hx k.
    destruct (is_rest_range el); cbn; [apply incl_nil_l|].
    destruct (is_wild el); cbn; [apply incl_nil_l|]. rewrite app_nil_r. apply Hx.
  - (* set *)
    cbn [stmt_refs]. apply incl_app; [apply incl_appl|apply incl_appr; apply incl_refl].
    rewrite flat_map_concat_map, map_map, <- flat_map_concat_map.
    apply incl_flat_map. eapply Forall_impl'; [|exact IH]. cbn. intros el Hx. apply Hx.
  - (* map *)
    cbn [stmt_refs]. rewrite flat_map_app. apply incl_app.
    + destruct rest; cbn; [apply incl_nil_l|]. apply incl_appr. apply incl_refl.
    + rewrite flat_map_concat_map, map_map, <- flat_map_concat_map.
      assert (H : Forall (fun kv : uexpr * pat =>
                 incl (stmt_refs (let '(k, vp) := kv in
                                  SMapGet (expr_span j k) e k (expand j vp (VBind NMapValue))
                                          (mk_push (expr_span j k) id AMissingKey (EKeyPresent (u_text k)))))
                      (node_ids (snd kv) ++ [id])) entries).
      { eapply Forall_impl'; [|exact IH]. cbn. intros [k vp] Hx. cbn in *.
        apply incl_app; [apply incl_appl; apply Hx|apply incl_appr; apply incl_refl]. }
      clear IH. induction H as [|kv l Hkv H IHl]; cbn; [apply incl_nil_l|].
      apply incl_app.
      * intros a Ha. apply Hkv in Ha. apply in_app_or in Ha as [Ha|Ha]; apply in_or_app; [left; apply in_or_app; left; exact Ha|right; exact Ha].
      * intros a Ha. apply IHl in Ha. apply in_app_or in Ha as [Ha|Ha]; apply in_or_app; [left; apply in_or_app; right; exact Ha|right; exact Ha].
Qed.
