(* Proofs about Model/SetMatch.v (property C10). *)
From ASModel Require Import Base SetMatch.
From Coq Require Import Permutation Arith.

(* An assignment is a list f of element indices, one per pattern (row), in order. *)
Definition assigns (n : nat) (f : list nat) (M : list (list bool)) : Prop :=
  NoDup f /\ Forall2 (fun i row => i < n /\ nth i row false = true) f M.

Definition valid (n : nat) (used : list bool) (f : list nat) (M : list (list bool)) : Prop :=
  NoDup f /\ Forall2 (fun i row => i < n /\ nth i used true = false /\ nth i row false = true) f M.

Lemma nth_set_nth_same : forall i l, i < length l -> nth i (set_nth i l) true = true.
Proof. induction i as [|i IH]; destruct l; cbn; intros; try lia; auto. apply IH; lia. Qed.
Lemma nth_set_nth_other : forall i j l, i <> j -> nth j (set_nth i l) true = nth j l true.
Proof. induction i as [|i IH]; destruct l, j; cbn; intros; try congruence; auto. Qed.
Lemma length_set_nth : forall i l, length (set_nth i l) = length l.
Proof. induction i as [|i IH]; destruct l; cbn; auto. Qed.

Lemma Forall2_impl {A B} (P Q : A -> B -> Prop) l l' :
  (forall a b, P a b -> Q a b) -> Forall2 P l l' -> Forall2 Q l l'.
Proof. intros H F; induction F; constructor; auto. Qed.

Lemma Forall2_length {A B} (P : A -> B -> Prop) l l' : Forall2 P l l' -> length l = length l'.
Proof. intros F; induction F; cbn; congruence. Qed.

Lemma Forall2_impl_In_l {A B} (P Q : A -> B -> Prop) l l' :
  (forall a b, In a l -> P a b -> Q a b) -> Forall2 P l l' -> Forall2 Q l l'.
Proof.
  intros H F; induction F as [|a b l l' Hab F IH]; constructor.
  - apply H; [left; reflexivity|exact Hab].
  - apply IH; intros a' b' Hin; apply H; right; exact Hin.
Qed.

Lemma Forall2_In_l {A B} (P : A -> B -> Prop) l l' a :
  Forall2 P l l' -> In a l -> exists b, In b l' /\ P a b.
Proof.
  intros F; induction F as [|x y l l' Hxy F IH]; intros Hin; [destruct Hin|].
  destruct Hin as [->|Hin]; [exists y; split; [left; reflexivity|exact Hxy]|].
  destruct (IH Hin) as (b & Hb & HP); exists b; split; [right; exact Hb|exact HP].
Qed.

Theorem backtrack_iff : forall n M used, length used = n ->
  backtrack n M used = true <-> exists f, valid n used f M.
Proof.
  intros n M; induction M as [|row rest IH]; intros used Hlen; cbn [backtrack].
  - split; [intros _; exists []; split; constructor|reflexivity].
  - rewrite existsb_exists. split.
    + intros (i & Hin & H). apply in_seq in Hin.
      apply andb_prop in H as [H Hb]. apply andb_prop in H as [Hu Hr].
      apply negb_true_iff in Hu.
      apply IH in Hb; [|rewrite length_set_nth; exact Hlen].
      destruct Hb as (f & Hnd & Hf).
      exists (i :: f). split.
      * constructor; [|exact Hnd]. intros Hi.
        destruct (Forall2_In_l _ _ _ _ Hf Hi) as (b & _ & _ & Hused & _).
        rewrite nth_set_nth_same in Hused by lia. discriminate.
      * constructor; [repeat split; [lia|exact Hu|exact Hr]|].
        eapply Forall2_impl; [|exact Hf]. cbn. intros j r (Hj & Hused & Hm).
        repeat split; [exact Hj| |exact Hm].
        destruct (Nat.eq_dec i j) as [->|Hne].
        -- rewrite nth_set_nth_same in Hused by lia. discriminate.
        -- rewrite nth_set_nth_other in Hused by exact Hne. exact Hused.
    + intros (f & Hnd & Hf). inversion Hf as [|i row' f' rest' (Hi & Hu & Hm) Hf' E1 E2]; subst.
      exists i. split; [apply in_seq; lia|].
      rewrite Hu, Hm. cbn. apply IH; [rewrite length_set_nth; reflexivity|].
      inversion Hnd as [|i' f'' Hnotin Hnd']; subst.
      exists f'. split; [exact Hnd'|].
      eapply Forall2_impl_In_l; [|exact Hf']. cbn. intros j r Hjin (Hj & Hused & Hmr).
      repeat split; [exact Hj| |exact Hmr].
      rewrite nth_set_nth_other; [exact Hused|]. intros ->. exact (Hnotin Hjin).
Qed.

Lemma nth_repeat_false : forall n i, nth i (repeat false n) true = false <-> i < n.
Proof.
  induction n as [|n IH]; intros i; cbn.
  - destruct i; split; intros; try discriminate; lia.
  - destruct i; [split; intros; [lia|reflexivity]|]. rewrite IH. lia.
Qed.

Lemma valid_fresh_iff n f M : valid n (repeat false n) f M <-> assigns n f M.
Proof.
  unfold valid, assigns; split; intros (Hnd & F); (split; [exact Hnd|]);
    (eapply Forall2_impl; [|exact F]); cbn; intros i r.
  - intros (? & ? & ?); auto.
  - intros (? & ?); repeat split; auto. apply nth_repeat_false; assumption.
Qed.

Definition length_rule (n : nat) (rest : bool) (k : nat) : Prop :=
  if rest then k <= n else k = n.

Lemma length_ok_iff n rest k : length_ok n rest k = true <-> length_rule n rest k.
Proof.
  unfold length_ok, length_rule; destruct rest.
  - apply Nat.leb_le.
  - rewrite Nat.eqb_eq. split; intros; symmetry; assumption.
Qed.

Theorem set_match_iff : forall n rest M,
  set_match n rest M = true <-> length_rule n rest (length M) /\ exists f, assigns n f M.
Proof.
  intros n rest M. unfold set_match. rewrite andb_true_iff, length_ok_iff.
  rewrite backtrack_iff by apply repeat_length.
  split; intros (H1 & f & H2); (split; [exact H1|exists f]); apply valid_fresh_iff; exact H2.
Qed.

(* The traced search computes the same verdict as the plain one. *)
Lemma try_elems_fst (g : nat -> bool) (f : nat -> bool * list (nat * nat)) (is : list nat) :
  (forall i, fst (f i) = g i) -> fst (try_elems f is) = existsb g is.
Proof.
  intros H; induction is as [|i r IH]; cbn; [reflexivity|].
  rewrite <- (H i). destruct (f i) as [b t]; cbn. destruct b; cbn; [reflexivity|].
  destruct (try_elems f r) as [b' t']; cbn in *. exact IH.
Qed.

Lemma backtrack_tr_fst : forall n M p used, fst (backtrack_tr n p M used) = backtrack n M used.
Proof.
  intros n M; induction M as [|row rest IH]; intros p used; cbn [backtrack_tr backtrack]; [reflexivity|].
  apply try_elems_fst. intros i.
  destruct (nth i used true); cbn; [reflexivity|].
  destruct (nth i row false); cbn; [|reflexivity].
  rewrite <- (IH (S p) (set_nth i used)). destruct (backtrack_tr n (S p) rest (set_nth i used)); reflexivity.
Qed.

Theorem set_match_tr_verdict : forall n rest M,
  (fst (set_match_tr n rest M) = SMPass) <-> set_match n rest M = true.
Proof.
  intros n rest M. unfold set_match_tr, set_match.
  destruct (length_ok n rest (length M)); cbn; [|split; discriminate].
  rewrite <- (backtrack_tr_fst n M 0 (repeat false n)).
  destruct (backtrack_tr n 0 M (repeat false n)) as [b t]; destruct b; cbn; split; congruence.
Qed.

(* Exactly one entry on failure, none on success: by construction the result is
   either SMPass or a single SMFail. *)
Theorem set_match_tr_one_entry : forall n rest M,
  match fst (set_match_tr n rest M) with
  | SMPass => set_match n rest M = true
  | SMFail _ _ => set_match n rest M = false
  end.
Proof.
  intros n rest M. pose proof (set_match_tr_verdict n rest M) as H.
  destruct (fst (set_match_tr n rest M)) eqn:E.
  - apply H; reflexivity.
  - destruct (set_match n rest M); [|reflexivity].
    destruct H as [_ H]. specialize (H eq_refl). discriminate.
Qed.

(* --- order independence ------------------------------------------------- *)

Lemma Forall2_perm_r {A B} (P : A -> B -> Prop) l1 l2 l2' :
  Forall2 P l1 l2 -> Permutation l2 l2' -> exists l1', Permutation l1 l1' /\ Forall2 P l1' l2'.
Proof.
  intros F Hp; revert l1 F; induction Hp as [|x l l' Hp IH|x y l|l l' l'' Hp1 IH1 Hp2 IH2]; intros l1 F.
  - inversion F; subst; exists []; split; constructor.
  - inversion F as [|a b la lb Hab F']; subst. destruct (IH _ F') as (l1' & Hp' & F'').
    exists (a :: l1'); split; [constructor; exact Hp'|constructor; assumption].
  - inversion F as [|a b la lb Hab F']; subst. inversion F' as [|a2 b2 la2 lb2 Hab2 F'']; subst.
    exists (a2 :: a :: la2); split; [apply perm_swap|repeat constructor; assumption].
  - destruct (IH1 _ F) as (m & Hpm & Fm). destruct (IH2 _ Fm) as (m' & Hpm' & Fm').
    exists m'; split; [eapply perm_trans; eassumption|exact Fm'].
Qed.

(* Permuting the patterns (rows). *)
Theorem assigns_perm_rows n M M' :
  Permutation M M' -> (exists f, assigns n f M) <-> (exists f, assigns n f M').
Proof.
  assert (H : forall M M', Permutation M M' -> (exists f, assigns n f M) -> exists f, assigns n f M').
  { intros M0 M1 Hp (f & Hnd & F). destruct (Forall2_perm_r _ _ _ _ F Hp) as (f' & Hpf & F').
    exists f'; split; [eapply Permutation_NoDup; eassumption|exact F']. }
  intros Hp; split; apply H; [exact Hp|apply Permutation_sym; exact Hp].
Qed.

Theorem set_match_perm_rows n rest M M' :
  Permutation M M' -> set_match n rest M = set_match n rest M'.
Proof.
  intros Hp. apply eq_true_iff_eq. rewrite !set_match_iff.
  rewrite (Permutation_length Hp). rewrite (assigns_perm_rows n M M' Hp). reflexivity.
Qed.

(* Permuting the elements (columns): pi lists, for each new column, the old
   column it shows; pi is a permutation of 0..n-1. *)
Definition permute_cols (pi : list nat) (M : list (list bool)) : list (list bool) :=
  map (fun row => map (fun j => nth j row false) pi) M.

Lemma nth_map_nth (pi : list nat) (row : list bool) k :
  k < length pi -> nth k (map (fun j => nth j row false) pi) false = nth (nth k pi 0) row false.
Proof.
  intros Hk. rewrite (nth_indep _ false (nth 0 row false)) by (rewrite map_length; exact Hk).
  apply (map_nth (fun j => nth j row false)).
Qed.

Lemma NoDup_map_nth_inj (pi : list nat) (f : list nat) :
  NoDup pi -> NoDup f -> Forall (fun k => k < length pi) f -> NoDup (map (fun k => nth k pi 0) f).
Proof.
  intros Hpi Hf; induction Hf as [|k f Hk Hf IH]; intros Hall; cbn; constructor.
  - intros Hin. apply in_map_iff in Hin as (k' & Heq & Hk').
    inversion Hall as [|? ? Hlt Hall']; subst.
    assert (k' < length pi) by (eapply Forall_forall in Hall'; eassumption).
    apply (proj1 (NoDup_nth pi 0) Hpi) in Heq; [|assumption|assumption]. subst. exact (Hk Hk').
  - apply IH. inversion Hall; assumption.
Qed.

Lemma assigns_cols_fwd n pi M :
  Permutation pi (seq 0 n) -> (exists f, assigns n f (permute_cols pi M)) -> exists f, assigns n f M.
Proof.
  intros Hp (f & Hnd & F).
  assert (Hlen : length pi = n) by (rewrite (Permutation_length Hp); apply seq_length).
  assert (Hpind : NoDup pi) by (eapply Permutation_NoDup; [apply Permutation_sym; exact Hp|apply seq_NoDup]).
  exists (map (fun k => nth k pi 0) f). split.
  - apply NoDup_map_nth_inj; [exact Hpind|exact Hnd|].
    clear Hnd. induction F as [|k r f M' (Hk & _) F IH]; constructor; [lia|exact IH].
  - clear Hnd. unfold permute_cols in F. remember (map _ M) as PM eqn:E.
    revert M E; induction F as [|k r f PM' (Hk & Hm) F IH]; intros M E.
    + destruct M; [constructor|discriminate].
    + destruct M as [|row M]; [discriminate|]. cbn in E. inversion E; subst. cbn. constructor.
      * rewrite nth_map_nth in Hm by lia. split; [|exact Hm].
        assert (Hin : In (nth k pi 0) pi) by (apply nth_In; lia).
        eapply Permutation_in in Hin; [|exact Hp]. apply in_seq in Hin. lia.
      * apply IH. reflexivity.
Qed.

(* index of j in pi *)
Fixpoint index_of (j : nat) (pi : list nat) : nat :=
  match pi with [] => 0 | x :: r => if Nat.eqb x j then 0 else S (index_of j r) end.

Lemma index_of_spec j pi : In j pi -> index_of j pi < length pi /\ nth (index_of j pi) pi 0 = j.
Proof.
  induction pi as [|x r IH]; intros Hin; [destruct Hin|]. cbn.
  destruct (Nat.eqb_spec x j) as [->|Hne]; [split; [lia|reflexivity]|].
  destruct Hin as [->|Hin]; [congruence|]. destruct (IH Hin); split; [lia|assumption].
Qed.

Lemma assigns_cols_bwd n pi M :
  Permutation pi (seq 0 n) -> (exists f, assigns n f M) -> exists f, assigns n f (permute_cols pi M).
Proof.
  intros Hp (f & Hnd & F).
  assert (Hlen : length pi = n) by (rewrite (Permutation_length Hp); apply seq_length).
  assert (Hin : forall j, j < n -> In j pi).
  { intros j Hj. eapply Permutation_in; [apply Permutation_sym; exact Hp|apply in_seq; lia]. }
  exists (map (fun j => index_of j pi) f). split.
  - assert (Hall : Forall (fun j => j < n) f).
    { clear Hnd. induction F as [|k r f' M' (Hk & _) F IH]; constructor; assumption. }
    clear F Hlen Hp. induction Hnd as [|j f' Hj Hnd IH]; cbn; constructor.
    + intros Hi. apply in_map_iff in Hi as (j' & Heq & Hj').
      inversion Hall as [|? ? Hlt Hall']; subst.
      assert (j' < n) by (eapply Forall_forall in Hall'; eassumption).
      destruct (index_of_spec j pi (Hin _ Hlt)) as (_ & E1).
      destruct (index_of_spec j' pi (Hin _ H)) as (_ & E2).
      rewrite Heq in E2. rewrite E1 in E2. subst. exact (Hj Hj').
    + apply IH. inversion Hall; assumption.
  - clear Hnd. induction F as [|j row f' M' (Hj & Hm) F IH]; cbn; constructor; [|exact IH].
    destruct (index_of_spec j pi (Hin _ Hj)) as (Hlt & E).
    split; [lia|]. rewrite nth_map_nth by exact Hlt. rewrite E. exact Hm.
Qed.

Theorem set_match_perm_cols n rest pi M :
  Permutation pi (seq 0 n) -> set_match n rest (permute_cols pi M) = set_match n rest M.
Proof.
  intros Hp. apply eq_true_iff_eq. rewrite !set_match_iff.
  unfold permute_cols at 1. rewrite map_length.
  split; intros (H1 & H2); (split; [exact H1|]).
  - eapply assigns_cols_fwd; eassumption.
  - eapply assigns_cols_bwd; eassumption.
Qed.

(* brute force agrees (it is only a second opinion for the correspondence run) *)
Lemma assignment_ok_iff M f :
  assignment_ok M f = true <-> Forall2 (fun i row => nth i row false = true) f M.
Proof.
  revert f; induction M as [|row M IH]; intros f; destruct f as [|i f]; cbn.
  - split; [constructor|reflexivity].
  - split; [discriminate|intros H; inversion H].
  - split; [discriminate|intros H; inversion H].
  - rewrite andb_true_iff, IH. split; [intros (? & ?); constructor; assumption|intros H; inversion H; auto].
Qed.

Lemma assignments_spec n k f :
  In f (assignments n k) <-> length f = k /\ NoDup f /\ Forall (fun i => i < n) f.
Proof.
  revert f; induction k as [|k IH]; intros f; cbn.
  - split.
    + intros [<-|[]]; repeat split; constructor.
    + intros (Hl & _ & _); destruct f; [left; reflexivity|discriminate].
  - rewrite in_flat_map. split.
    + intros (g & Hg & Hf). apply in_map_iff in Hf as (i & <- & Hi).
      apply filter_In in Hi as (Hi & Hnot). apply in_seq in Hi.
      apply IH in Hg as (Hl & Hnd & Hall). cbn. repeat split; [lia| |constructor; [lia|exact Hall]].
      constructor; [|exact Hnd]. intros Hin. apply negb_true_iff in Hnot.
      assert (existsb (Nat.eqb i) g = true) by (apply existsb_exists; exists i; split; [exact Hin|apply Nat.eqb_refl]).
      congruence.
    + intros (Hl & Hnd & Hall). destruct f as [|i g]; [discriminate|].
      inversion Hnd as [|? ? Hnotin Hnd']; subst. inversion Hall as [|? ? Hi Hall']; subst.
      exists g. split; [apply IH; repeat split; [cbn in Hl; lia|exact Hnd'|exact Hall']|].
      apply in_map_iff. exists i. split; [reflexivity|]. apply filter_In. split; [apply in_seq; lia|].
      apply negb_true_iff. destruct (existsb (Nat.eqb i) g) eqn:E; [|reflexivity].
      apply existsb_exists in E as (x & Hx & Hxe). apply Nat.eqb_eq in Hxe. subst. contradiction.
Qed.

Theorem brute_force_iff n rest M :
  brute_force n rest M = true <-> length_rule n rest (length M) /\ exists f, assigns n f M.
Proof.
  unfold brute_force. rewrite andb_true_iff, length_ok_iff, existsb_exists.
  split; intros (H1 & f & H2); (split; [exact H1|exists f]).
  - destruct H2 as (Hin & Hok). apply assignments_spec in Hin as (Hl & Hnd & Hall).
    apply assignment_ok_iff in Hok. split; [exact Hnd|].
    clear Hl Hnd H1. induction Hok as [|i row f' M' Hm F IH]; constructor.
    + inversion Hall; subst. split; assumption.
    + apply IH. inversion Hall; assumption.
  - destruct H2 as (Hnd & F). split.
    + apply assignments_spec. repeat split; [eapply Forall2_length; exact F|exact Hnd|].
      clear Hnd H1. induction F as [|i row f' M' (Hi & _) F IH]; constructor; assumption.
    + apply assignment_ok_iff. eapply Forall2_impl; [|exact F]. cbn. intros ? ? (? & ?); assumption.
Qed.

Corollary set_match_is_brute_force n rest M : set_match n rest M = brute_force n rest M.
Proof. apply eq_true_iff_eq. rewrite set_match_iff, brute_force_iff. reflexivity. Qed.
