(* SrcLoc.v — model of byte_offset_of and of the annotation span computation in
   impl Display for ErrorReport (assert-struct/src/error.rs).

   A source text is a list of Unicode scalar values (the file was read with
   read_to_string, so it is valid UTF-8; a read failure is the `None` branch and
   never reaches this code).  Offsets are byte offsets into its UTF-8 encoding. *)
From ASModel Require Import Base.
Local Open Scope N_scope.

Definition text := list N.

Definition NL : N := 10.

(* char::len_utf8 *)
Definition utf8_len (c : N) : N :=
  if c <? 128 then 1 else if c <? 2048 then 2 else if c <? 65536 then 3 else 4.

(* str::len *)
Fixpoint blen (t : text) : N :=
  match t with [] => 0 | c :: r => utf8_len c + blen r end.

(* str::split('\n'): always at least one piece; the separator is dropped. *)
Fixpoint split_nl (t : text) : list text :=
  match t with
  | [] => [[]]
  | c :: r =>
      if c =? NL then [] :: split_nl r
      else match split_nl r with
           | l :: ls => (c :: l) :: ls
           | [] => [[c]]           (* unreachable: split_nl never returns [] *)
           end
  end.

(* .take(k).map(|l| l.len() + 1).sum() *)
Fixpoint sum_first (k : N) (ls : list text) : N :=
  match ls with
  | [] => 0
  | l :: r => if k =? 0 then 0 else blen l + 1 + sum_first (N.pred k) r
  end.

(* --- the code as it is now (after the repairs "fix: convert the character
       column to a byte offset" and "fix: a leading byte-order mark is not
       counted in the columns of the first line") ----------------------------- *)

(* U+FEFF, three bytes of UTF-8 *)
Definition BOM : N := 65279.

(* line_text.strip_prefix('\u{feff}').is_some() *)
Definition starts_bom (t : text) : bool :=
  match t with c :: _ => c =? BOM | [] => false end.

(* fn byte_offset_of(source, line, col):
     if line == 0 { return 0 }
     let mut lines = source.split('\n');
     let line_start = lines.by_ref().take(line-1).map(|l| l.len()+1).sum();
     let line_text = lines.next().unwrap_or("");
     let (bom, line_text) = match line_text.strip_prefix('\u{feff}') {
         Some(rest) if line == 1 => ('\u{feff}'.len_utf8(), rest), _ => (0, line_text) };
     let col_bytes = line_text.char_indices().nth(col).map(|(i,_)| i).unwrap_or(line_text.len());
     (line_start + bom + col_bytes).min(source.len())                            *)
Definition byte_offset_of (src : text) (line col : N) : N :=
  if line =? 0 then 0
  else
    let ls := split_nl src in
    let k := line - 1 in
    let line_start := sum_first k ls in
    let line_text := nthN k ls [] in
    let marked := (line =? 1) && starts_bom line_text in
    let bom := if marked then utf8_len BOM else 0 in
    let line_text := if marked then tl line_text else line_text in
    let col_bytes := blen (firstnN col line_text) in
    N.min (line_start + bom + col_bytes) (blen src).

(* the same computation without the byte-order-mark step: the code between the two
   repairs.  On a text that does not begin with a byte-order mark the two agree
   (SrcLocP.offset_without_bom); on one that does, this one is refuted below. *)
Definition byte_offset_core (src : text) (line col : N) : N :=
  if line =? 0 then 0
  else
    let ls := split_nl src in
    let k := line - 1 in
    let line_start := sum_first k ls in
    let line_text := nthN k ls [] in
    let col_bytes := blen (firstnN col line_text) in
    N.min (line_start + col_bytes) (blen src).

(* the byte length of the character that starts at byte offset `b`, if `b` is a
   character boundary inside the text: source[b..].chars().next() *)
Fixpoint char_len_at (t : text) (b : N) : option N :=
  match t with
  | [] => None
  | c :: r => if b =? 0 then Some (utf8_len c)
              else if b <? utf8_len c then None      (* inside c: not a boundary *)
              else char_len_at r (b - utf8_len c)
  end.

(* let start = byte_offset_of(ls, cs);
   let end = byte_offset_of(le, ce);
   let end = if end > start { end } else { start + source[start..].chars().next().map_or(1, len_utf8) } *)
Definition span_of (src : text) (ls cs le ce : N) : N * N :=
  let s := byte_offset_of src ls cs in
  let e := byte_offset_of src le ce in
  if s <? e then (s, e)
  else (s, s + match char_len_at src s with Some n => n | None => 1 end).

(* --- the code as it was (kept as a record of the defect, refuted in Props) - *)
Definition byte_offset_of_old (src : text) (line col : N) : N :=
  if line =? 0 then 0
  else N.min (sum_first (line - 1) (split_nl src) + col) (blen src).

Definition span_of_old (src : text) (ls cs le ce : N) : N * N :=
  let s := byte_offset_of_old src ls cs in
  (s, N.max (byte_offset_of_old src le ce) (s + 1)).

(* --- specification side: what the compiler records for a position -------- *)

(* Position of the character with index i (0-based, i <= length): the line is
   1 + the number of '\n' before it, the column the number of characters since
   the last '\n' (proc_macro2::LineColumn: 1-indexed line, 0-indexed column in
   characters). *)
Fixpoint linecol_from (t : text) (i : nat) (line col : N) : N * N :=
  match i, t with
  | O, _ => (line, col)
  | S _, [] => (line, col)
  | S j, c :: r => if c =? NL then linecol_from r j (line + 1) 0
                   else linecol_from r j line (col + 1)
  end.
Definition linecol (t : text) (i : nat) : N * N := linecol_from t i 1 0.

(* What the compiler sees of a file: a leading byte-order mark is dropped before positions are assigned
   (rustc_span: SourceFile::new -> remove_bom); the file read back at run time still begins with it. *)
Definition strip_bom (t : text) : text := if starts_bom t then tl t else t.
Definition bom_len (t : text) : N := if starts_bom t then utf8_len BOM else 0.

(* byte offset of the character with index i *)
Definition prefix_len (t : text) (i : nat) : N := blen (firstn i t).

(* b is a character boundary of t, or lies at/after its end *)
Fixpoint is_boundary (t : text) (b : N) : bool :=
  match t with
  | [] => true
  | c :: r => if b =? 0 then true
              else if b <? utf8_len c then false
              else is_boundary r (b - utf8_len c)
  end.
