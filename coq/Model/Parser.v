(* Parser.v — the macro's front end (assert-struct-macros/src/parse.rs, pattern.rs,
   pattern/*.rs) as an executable function from token trees to the Pattern tree of
   Ast.v, rule for rule and in the order of the Rust source.

   What is modelled exactly: every `peek`, every token consumed, every `fork`, the
   thread-local node counter (advanced by speculative parses too), syn's "unexpected
   token" mechanism (a delimited group whose content the rule did not consume entirely
   records the first leftover token; the invocation is rejected at the end), the position
   of every error, and every panic site (`expect`, `panic!`, `unreachable!`) as an explicit
   PPanic outcome.

   What is NOT modelled but supplied: syn's own parsers for expressions, paths and
   closures.  They are Section variables (`parse_expr`, `parse_path`, `parse_closure`):
   functions from the remaining tokens of the current group to how many tokens the
   construct takes and what was parsed.  Theorems quantify over all such functions (with
   one hypothesis: a successful parse takes at least one token and no more than there are);
   the correspondence run instantiates them with a table computed by the real syn on every
   suffix of every group of the invocation. *)
From ASModel Require Import Base Tokens Report Ast.
Local Open Scope string_scope.

(* ---- token trees --------------------------------------------------------------- *)

(* syn's classification of a literal token *)
Inductive litkind :=
| LStr (value : string)          (* LitStr, with .value() *)
| LInt (usz : option N)          (* LitInt, with base10_parse::<usize>() *)
| LFloat                         (* LitFloat; its text is split at '.' by the macro *)
| LOther.

Inductive ttree :=
| TTIdent (s : string) (sp : span)
| TTPunct (c : ascii) (joint : bool) (sp : span)
| TTLit (k : litkind) (text : string) (sp : span)
| TTGroup (d : delim) (sp sp_open sp_close : span) (body : list ttree).

(* Cursor::span() *)
Definition tspan (t : ttree) : span :=
  match t with
  | TTIdent _ sp | TTPunct _ _ sp | TTLit _ _ sp | TTGroup _ sp _ _ _ => sp
  end.
(* open_span_of_group: where an error "at the current token" points *)
Definition tspan_open (t : ttree) : span :=
  match t with
  | TTIdent _ sp | TTPunct _ _ sp | TTLit _ _ sp => sp
  | TTGroup _ _ spo _ _ => spo
  end.

Definition delim_eqb (a b : delim) : bool :=
  match a, b with
  | DParen, DParen | DBrace, DBrace | DBracket, DBracket | DNone, DNone => true
  | _, _ => false
  end.

(* total number of tokens, groups counted with their content *)
Fixpoint tsize (t : ttree) : nat :=
  match t with
  | TTGroup _ _ _ _ body => S ((fix go (l : list ttree) : nat := match l with [] => 0 | x :: r => tsize x + go r end) body)
  | _ => 1
  end.
Fixpoint tsizes (l : list ttree) : nat := match l with [] => 0 | x :: r => tsize x + tsizes r end.

(* ---- peeking (token.rs peek_punct, buffer.rs skip) ------------------------------- *)

(* a multi-character punctuation token: every character but the last must be Joint; the
   spacing of the last is not looked at (so `..` also matches the start of `..=`) *)
Fixpoint peek_punct (s : string) (ts : list ttree) : bool :=
  match s with
  | EmptyString => false
  | String c EmptyString => match ts with TTPunct c' _ _ :: _ => Ascii.eqb c c' | _ => false end
  | String c s' => match ts with TTPunct c' true _ :: r => Ascii.eqb c c' && peek_punct s' r | _ => false end
  end.

(* one token tree forward; a lifetime ('a) counts as one *)
Definition skip1 (ts : list ttree) : option (list ttree) :=
  match ts with
  | [] => None
  | TTPunct c true _ :: TTIdent _ _ :: r => if Ascii.eqb c "'" then Some r else Some (tl ts)
  | _ :: r => Some r
  end.
Definition peek2 (f : list ttree -> bool) (ts : list ttree) : bool :=
  match skip1 ts with Some r => f r | None => false end.

Definition peek_group (d : delim) (ts : list ttree) : bool :=
  match ts with TTGroup d' _ _ _ _ :: _ => delim_eqb d d' | _ => false end.
Definition peek_ident (s : string) (ts : list ttree) : bool :=
  match ts with TTIdent s' _ :: _ => String.eqb s s' | _ => false end.

(* set.rs peek_rest: `..` is the rest marker of a set pattern only when it stands alone (followed by
   `,` or by the end of the group); `..5` and `..=5` are range patterns *)
Definition peek_rest (ts : list ttree) : bool :=
  peek_punct ".." ts && negb (peek_punct "..=" ts) &&
  match skipn 2 ts with [] => true | r => peek_punct "," r end.

(* syn::Ident refuses keywords and `_` *)
Definition keywords : list string :=
  ["_"; "abstract"; "as"; "async"; "await"; "become"; "box"; "break"; "const"; "continue"; "crate"; "do";
   "dyn"; "else"; "enum"; "extern"; "false"; "final"; "fn"; "for"; "if"; "impl"; "in"; "let"; "loop"; "macro";
   "match"; "mod"; "move"; "mut"; "override"; "priv"; "pub"; "ref"; "return"; "Self"; "self"; "static";
   "struct"; "super"; "trait"; "true"; "try"; "type"; "typeof"; "unsafe"; "unsized"; "use"; "virtual";
   "where"; "while"; "yield"].
Definition is_keyword (s : string) : bool := existsb (String.eqb s) keywords.

(* "123".parse::<usize>() on a 64-bit target: decimal digits only, no overflow *)
Fixpoint digits_val (s : string) (acc : N) : option N :=
  match s with
  | EmptyString => Some acc
  | String c r => if is_digit c then digits_val r (acc * 10 + N.of_nat (digit_val c))%N else None
  end.
Definition usize_max : N := 18446744073709551615%N.
Definition parse_usize (s : string) : option N :=
  match s with
  | EmptyString => None
  | _ => match digits_val s 0%N with
         | Some n => if N.leb n usize_max then Some n else None
         | None => None
         end
  end.

(* str::split_once('.') *)
Fixpoint split_once_dot (s : string) : option (string * string) :=
  match s with
  | EmptyString => None
  | String c r => if Ascii.eqb c "." then Some (EmptyString, r)
                  else match split_once_dot r with
                       | Some (a, b) => Some (String c a, b)
                       | None => None
                       end
  end.

(* ---- what syn's own parsers return ------------------------------------------------ *)

Inductive oerr := OErrEof | OErrAt (sp : span).     (* end of the current group, or a token *)
Inductive ores (A : Type) := OOk (a : A) | OErr (e : oerr).
Arguments OOk {A} a.
Arguments OErr {A} e.

Record expr_ok := {
  eo_n : nat;                                                          (* token trees taken *)
  eo_u : uexpr;
  eo_range : option (option uexpr * span * bool * option uexpr);       (* Expr::Range: start, limits, closed, end *)
  eo_str : option string;                                              (* Expr::Lit(Lit::Str) without attributes: its value *)
  eo_unx : option span }.                                              (* leftover inside one of its own groups *)
Record path_ok := { po_n : nat; po_p : rpath; po_unx : option span }.   (* po_unx: leftover inside one of the path's own groups (generic arguments) *)
Record closure_ok := {
  co_n : nat; co_u : uexpr;
  co_inputs : nat;                 (* closure.inputs.len() *)
  co_inputs_span : span;           (* Error::new_spanned(&closure.inputs, ..) *)
  co_unx : option span }.

(* ---- the parser state ------------------------------------------------------------- *)

Record pst := { toks : list ttree; ctr : N; unx : option span }.

Inductive pres (A : Type) :=
| POk (a : A) (st : pst)
| PErr (sp : span) (c : N)         (* the counter survives a failed speculative parse *)
| PPanic (site : string)
| PFuel.
Arguments POk {A} a st.
Arguments PErr {A} sp c.
Arguments PPanic {A} site.
Arguments PFuel {A}.

(* a parser runs in a scope: the span an error at the end of the current group points to
   (the group's closing delimiter; the call site at top level) *)
Definition M (A : Type) := span -> pst -> pres A.

Definition ret {A} (a : A) : M A := fun _ st => POk a st.
Definition bind {A B} (m : M A) (k : A -> M B) : M B :=
  fun sc st => match m sc st with
               | POk a st' => k a sc st'
               | PErr sp c => PErr sp c
               | PPanic s => PPanic s
               | PFuel => PFuel
               end.
Notation "x <- m ;; k" := (bind m (fun x => k)) (at level 61, m at next level, right associativity).
Notation "m ;;; k" := (bind m (fun _ => k)) (at level 61, right associativity).

Definition here (sc : span) (st : pst) : span :=
  match toks st with [] => sc | t :: _ => tspan_open t end.

Definition cur_span : M span := fun sc st => POk (here sc st) st.
Definition fail {A} : M A := fun sc st => PErr (here sc st) (ctr st).
Definition fail_at {A} (sp : span) : M A := fun _ st => PErr sp (ctr st).
Definition panic {A} (site : string) : M A := fun _ _ => PPanic site.
Definition out_of_fuel {A} : M A := fun _ _ => PFuel.
Definition get_toks : M (list ttree) := fun _ st => POk (toks st) st.
Definition advance (n : nat) : M unit :=
  fun _ st => POk tt {| toks := skipn n (toks st); ctr := ctr st; unx := unx st |}.
Definition fresh : M N :=
  fun _ st => POk (ctr st) {| toks := toks st; ctr := N.succ (ctr st); unx := unx st |}.
Definition first_wins (a b : option span) : option span := match a with Some _ => a | None => b end.
Definition note_unx (u : option span) : M unit :=
  fun _ st => POk tt {| toks := toks st; ctr := ctr st; unx := first_wins (unx st) u |}.
Definition is_empty : M bool := fun _ st => POk (match toks st with [] => true | _ => false end) st.
Definition peek (f : list ttree -> bool) : M bool := fun _ st => POk (f (toks st)) st.

(* input.parse::<Token![..]>() and friends: returns the spans of the characters *)
Definition punct_spans (n : nat) (ts : list ttree) : list span := map tspan (firstn n ts).
Definition p_punct (s : string) : M (list span) :=
  ts <- get_toks ;;
  if peek_punct s ts then advance (String.length s) ;;; ret (punct_spans (String.length s) ts)
  else fail.
(* Token![==].span(): the two characters joined when Span::join works *)
Definition spans_span (join_ok : bool) (l : list span) : span :=
  match l with
  | [] => SCall
  | a :: r => match r with [] => a | _ => if join_ok then span_join a (last r a) else a end
  end.

(* syn::parenthesized!/braced!/bracketed!(content in input) followed by running `body` on
   the content; when the function that owns `content` returns, a content that was not
   consumed entirely records its first leftover token (ParseBuffer::drop) *)
Definition in_group {A} (d : delim) (body : M A) : M (span * span * span * A) :=
  fun sc st =>
    match toks st with
    | TTGroup d' sp spo spc inner :: r =>
        if delim_eqb d d' then
          match body spc {| toks := inner; ctr := ctr st; unx := unx st |} with
          | POk a st' =>
              let left := match toks st' with [] => None | t :: _ => Some (tspan t) end in
              POk (sp, spo, spc, a) {| toks := r; ctr := ctr st'; unx := first_wins (unx st') left |}
          | PErr e c => PErr e c
          | PPanic s => PPanic s
          | PFuel => PFuel
          end
        else PErr spo (ctr st)
    | _ => PErr (here sc st) (ctr st)
    end.

(* input.fork() + a speculative parse: the tokens and the enclosing buffer's leftover
   record are untouched, the thread-local counter is not *)
Definition fork {A} (m : M A) : M (option (A * list ttree)) :=
  fun sc st =>
    match m sc {| toks := toks st; ctr := ctr st; unx := None |} with
    | POk a st' => POk (Some (a, toks st')) {| toks := toks st; ctr := ctr st'; unx := unx st |}
    | PErr _ c => POk None {| toks := toks st; ctr := c; unx := unx st |}
    | PPanic s => PPanic s
    | PFuel => PFuel
    end.

Definition oerr_span (e : oerr) (sc : span) : span := match e with OErrEof => sc | OErrAt sp => sp end.

Section Parser.
  Variable regex : bool.          (* the macro crate's `regex` feature *)
  Variable join_ok : bool.        (* Span::join works (not under a stable rustc) *)
  Variable parse_expr : list ttree -> ores expr_ok.
  Variable parse_path : list ttree -> ores path_ok.
  Variable parse_closure : list ttree -> ores closure_ok.

  Definition p_expr : M expr_ok :=
    fun sc st => match parse_expr (toks st) with
                 | OOk r => POk r {| toks := skipn (eo_n r) (toks st); ctr := ctr st; unx := first_wins (unx st) (eo_unx r) |}
                 | OErr e => PErr (oerr_span e sc) (ctr st)
                 end.
  Definition p_path : M rpath :=
    fun sc st => match parse_path (toks st) with
                 | OOk r => POk (po_p r) {| toks := skipn (po_n r) (toks st); ctr := ctr st; unx := first_wins (unx st) (po_unx r) |}
                 | OErr e => PErr (oerr_span e sc) (ctr st)
                 end.
  Definition p_closure : M closure_ok :=
    fun sc st => match parse_closure (toks st) with
                 | OOk r => POk r {| toks := skipn (co_n r) (toks st); ctr := ctr st; unx := first_wins (unx st) (co_unx r) |}
                 | OErr e => PErr (oerr_span e sc) (ctr st)
                 end.

  (* ---- field.rs ------------------------------------------------------------------ *)

  (* impl Parse for FieldName *)
  Definition p_field_name : M field_name :=
    fun sc st =>
      match toks st with
      | TTLit (LInt u) _ sp :: r =>
          match u with
          | Some n => if index_fits n then POk (FIndex n sp) {| toks := r; ctr := ctr st; unx := unx st |}
                      else PErr sp (ctr st)                  (* checked_index: "tuple index is too large" *)
          | None => PErr sp (ctr st)                         (* base10_parse::<usize>() fails *)
          end
      | TTIdent s sp :: r =>
          if is_keyword s then PErr sp (ctr st)
          else POk (FIdent s sp) {| toks := r; ctr := ctr st; unx := unx st |}
      | _ => PErr (here sc st) (ctr st)    (* includes `-` <literal>: a negative index never fits usize *)
      end.

  (* method arguments: while !is_empty { expr; if !peek(,) break; , } *)
  Fixpoint p_args (fuel : nat) : M (list uexpr) :=
    match fuel with
    | O => out_of_fuel
    | S f =>
        e <- is_empty ;;
        if e then ret []
        else r <- p_expr ;;
             c <- peek (peek_punct ",") ;;
             if c then p_punct "," ;;; more <- p_args f ;; ret (eo_u r :: more)
             else ret [eo_u r]
    end.

  (* parse_one_dot_into: the `.` has not been consumed yet *)
  Definition p_dot_op (fuel : nat) : M (list fop) :=
    dot <- cur_span ;;
    p_punct "." ;;;
    ts <- get_toks ;;
    match ts with
    | TTIdent s sp :: _ =>
        if String.eqb s "await" then advance 1 ;;; ret [OAwait sp]
        else if is_keyword s then fail
        else advance 1 ;;;
             paren <- peek (peek_group DParen) ;;
             if paren then g <- in_group DParen (p_args fuel) ;; ret [OMethod s sp dot (snd g)]
             else ret [ONamed s sp dot]
    | TTLit (LInt u) _ sp :: _ =>
        match u with
        | Some n => if index_fits n then advance 1 ;;; ret [OUnnamed n dot] else fail_at sp
        | None => fail_at sp
        end
    | TTLit LFloat text _ :: _ =>
        match split_once_dot text with
        | Some (a, b) =>
            match parse_usize a, parse_usize b with
            | Some i, Some j =>
                if index_fits i && index_fits j then advance 1 ;;; ret [OUnnamed i dot; OUnnamed j dot]
                else fail_at dot                            (* checked_index *)
            | _, _ => fail_at dot
            end
        | None => fail_at dot
        end
    | TTPunct c _ sp :: TTLit (LInt _) _ _ :: _ =>
        if Ascii.eqb c "-" then fail_at sp else fail
    | TTPunct c _ sp :: TTLit LFloat _ _ :: _ =>
        if Ascii.eqb c "-" then fail_at dot else fail       (* "-1.0": "-1" is not a usize *)
    | _ => fail
    end.

  (* parse_one_into *)
  Definition p_one_op (fuel : nat) : M (list fop) :=
    ts <- get_toks ;;
    if peek_punct "." ts then p_dot_op fuel
    else if peek_group DBracket ts then
      g <- in_group DBracket p_expr ;;
      match g with (_, spo, _, r) => ret [OIndex (eo_u r) spo] end
    else fail.

  (* while peek(.) || peek(Bracket) { parse_one_into } *)
  Fixpoint p_ops_loop (fuel : nat) : M (list fop) :=
    match fuel with
    | O => out_of_fuel
    | S f =>
        ts <- get_toks ;;
        if peek_punct "." ts || peek_group DBracket ts then
          o <- p_one_op f ;; more <- p_ops_loop f ;; ret (o ++ more)%list
        else ret []
    end.

  (* while peek(Token![star]) { consume one star } *)
  Fixpoint count_stars (ts : list ttree) : nat :=
    match ts with
    | TTPunct c _ _ :: r => if Ascii.eqb c "*" then S (count_stars r) else 0
    | _ => 0
    end.

  (* impl Parse for FieldOperation *)
  Definition p_field_operation (fuel : nat) : M fop :=
    sp <- cur_span ;;
    ts <- get_toks ;;
    let stars := count_stars ts in
    advance stars ;;;
    name <- p_field_name ;;
    more <- p_ops_loop fuel ;;
    let ops := ((if Nat.eqb stars 0 then [] else [ODeref stars sp]) ++
               (match name with FIdent s nsp => ONamed s nsp sp | FIndex n _ => OUnnamed n sp end) :: more)%list in
    match ops with
    | [] => panic "field.rs: Must have at least field name"
    | [o] => ret o
    | _ => ret (OChained sp ops)
    end.

  (* ---- comparison.rs --------------------------------------------------------------- *)

  Definition p_cmp_op : M (cmp_op * span) :=
    ts <- get_toks ;;
    let go (s : string) (o : cmp_op) : M (cmp_op * span) :=
      sps <- p_punct s ;; ret (o, spans_span join_ok sps) in
    if peek_punct "<=" ts then go "<=" OpLe
    else if peek_punct "<" ts then go "<" OpLt
    else if peek_punct ">=" ts then go ">=" OpGe
    else if peek_punct ">" ts then go ">" OpGt
    else if peek_punct "==" ts then go "==" OpEq
    else if peek_punct "!=" ts then go "!=" OpNe
    else fail.

  Definition p_comparison : M pat :=
    o <- p_cmp_op ;;
    r <- p_expr ;;
    id <- fresh ;;
    ret (PCmp id (fst o) (snd o) (eo_u r)).

  (* regex.rs: `=` `~` expr, then into_pattern *)
  Definition p_like : M pat :=
    p_punct "=" ;;;
    p_punct "~" ;;;
    r <- p_expr ;;
    id <- fresh ;;
    match eo_str r with
    | Some v => ret (PRegex id v (u_span (eo_u r)))
    | None => ret (PLike id (eo_u r))
    end.

  (* closure.rs *)
  Definition p_closure_pat : M pat :=
    c <- p_closure ;;
    if Nat.eqb (co_inputs c) 1 then id <- fresh ;; ret (PClosure id (co_u c))
    else fail_at (co_inputs_span c).

  (* range.rs *)
  Definition p_range : M pat :=
    r <- p_expr ;;
    match eo_range r with
    | Some parts => id <- fresh ;; ret (PRange id (eo_u r) (Some parts))
    | None => fail_at (u_span (eo_u r))                     (* new_spanned(&expr, "Expected a range expression") *)
    end.

  (* simple.rs *)
  Definition p_simple : M pat :=
    r <- p_expr ;; id <- fresh ;; ret (PSimple id (eo_u r)).

  (* wildcard.rs *)
  Definition p_wild : M pat :=
    ts <- get_toks ;;
    if peek_ident "_" ts then advance 1 ;;; id <- fresh ;; ret (PWild id) else fail.

  (* ---- the recursive part ------------------------------------------------------------ *)

  Definition root_is (ops : fop) (pos : N) : option bool :=      (* None: root_field_name panics *)
    match root_field_name ops with
    | None => None
    | Some (FIndex i _) => Some (N.eqb i pos)
    | Some (FIdent _ _) => Some false
    end.

  Fixpoint p_pattern (fuel : nat) : M pat :=
    match fuel with
    | O => out_of_fuel
    | S f =>
      ts <- get_toks ;;
      (* closure *)
      if peek_punct "|" ts || (peek_ident "move" ts && peek2 (peek_punct "|") ts) then p_closure_pat
      (* `_` and `_ { .. }` *)
      else if peek_ident "_" ts then
        (if peek2 (peek_group DBrace) ts then p_struct f else p_wild)
      (* comparisons *)
      else if peek_punct "<" ts || peek_punct ">" ts || peek_punct "!" ts then p_comparison
      else if peek_punct "=" ts then
        (if peek2 (peek_punct "=") ts then p_comparison
         else if regex && peek2 (peek_punct "~") ts then p_like
         else fail)
      else if peek_punct "#" ts && peek2 (peek_group DParen) ts then p_set f
      else if peek_punct "#" ts && peek2 (peek_group DBrace) ts then p_map f
      else if peek_group DBracket ts then p_slice f
      else if peek_group DParen ts then p_tuple f
      else
        pk <- fork p_path ;;
        match pk with
        | Some (_, after) => if peek_group DBrace after then p_struct f else p_enum f
        | None =>
            rk <- fork p_range ;;
            match rk with
            | Some _ => p_range
            | None =>
                now <- get_toks ;;                           (* input.peek(syn::LitStr) *)
                match now with
                | TTLit (LStr v) text sp :: _ =>
                    advance 1 ;;; id <- fresh ;; ret (PString id text sp v)
                | _ => p_simple
                end
            end
        end
    end

  (* struct_pattern.rs *)
  with p_struct (fuel : nat) : M pat :=
    match fuel with
    | O => out_of_fuel
    | S f =>
      id <- fresh ;;
      ts <- get_toks ;;
      hd <- (match ts with
             | TTIdent s sp :: _ => if String.eqb s "_" then advance 1 ;;; ret (None, Some sp)
                                    else p <- p_path ;; ret (Some p, None)
             | _ => p <- p_path ;; ret (Some p, None)
             end) ;;
      g <- in_group DBrace (p_fields f) ;;
      match g with (_, _, _, (fields, rest)) =>
        match fst hd, rest with
        | None, false =>
            match snd hd with
            | Some wsp => fail_at wsp       (* "Wildcard struct patterns must use '..'" *)
            | None => panic "struct_pattern.rs: wildcard_span.unwrap()"
            end
        | _, _ => ret (PStruct id (fst hd) rest fields)
        end
      end
    end

  (* the field loop of struct_pattern.rs; returns (fields, rest) *)
  with p_fields (fuel : nat) : M (list (fop * pat) * bool) :=
    match fuel with
    | O => out_of_fuel
    | S f =>
      e <- is_empty ;;
      if e then ret ([], false)
      else
        d <- peek (peek_punct "..") ;;
        if d then p_punct ".." ;;; ret ([], true)
        else
          ops <- p_field_operation f ;;
          p_punct ":" ;;;
          p <- p_pattern f ;;
          e2 <- is_empty ;;
          if e2 then ret ([(ops, p)], false)
          else
            p_punct "," ;;;
            d2 <- peek (peek_punct "..") ;;
            if d2 then p_punct ".." ;;; ret ([(ops, p)], true)
            else more <- p_fields f ;; ret ((ops, p) :: fst more, snd more)
    end

  (* enum_pattern.rs *)
  with p_enum (fuel : nat) : M pat :=
    match fuel with
    | O => out_of_fuel
    | S f =>
      path <- p_path ;;
      paren <- peek (peek_group DParen) ;;
      elems <- (if paren then g <- in_group DParen (p_elems f 0%N) ;; ret (snd g) else ret []) ;;
      id <- fresh ;;
      ret (PEnum id path elems)
    end

  (* tuple.rs: PatternTuple *)
  with p_tuple (fuel : nat) : M pat :=
    match fuel with
    | O => out_of_fuel
    | S f =>
      g <- in_group DParen (p_elems f 0%N) ;;
      match g with (_, spo, _, elems) => id <- fresh ;; ret (PTuple id spo elems) end
    end

  (* TupleElement::parse_comma_separated *)
  with p_elems (fuel : nat) (pos : N) : M (list (option fop * pat)) :=
    match fuel with
    | O => out_of_fuel
    | S f =>
      e <- is_empty ;;
      if e then ret []
      else
        fk <- fork (p_pattern f) ;;
        el <- (match fk with
               | Some (_, after) =>
                   if negb (peek_punct ":" after) then p <- p_pattern f ;; ret (None, p)
                   else p_indexed f pos
               | None => p_indexed f pos
               end) ;;
        e2 <- is_empty ;;
        (if e2 then ret tt else p_punct "," ;;; ret tt) ;;;
        more <- p_elems f (N.succ pos) ;;
        ret (el :: more)
    end

  with p_indexed (fuel : nat) (pos : N) : M (option fop * pat) :=
    match fuel with
    | O => out_of_fuel
    | S f =>
      ops <- p_field_operation f ;;
      match root_is ops pos with
      | None => panic "field.rs: root_field_name"
      | Some true => p_punct ":" ;;; p <- p_pattern f ;; ret (Some ops, p)
      | Some false => fail
      end
    end

  (* slice.rs *)
  with p_slice (fuel : nat) : M pat :=
    match fuel with
    | O => out_of_fuel
    | S f =>
      g <- in_group DBracket (p_list f) ;;
      match g with (_, spo, _, elems) => id <- fresh ;; ret (PSlice id spo elems) end
    end

  with p_list (fuel : nat) : M (list pat) :=
    match fuel with
    | O => out_of_fuel
    | S f =>
      e <- is_empty ;;
      if e then ret []
      else
        p <- p_pattern f ;;
        e2 <- is_empty ;;
        (if e2 then ret tt else p_punct "," ;;; ret tt) ;;;
        more <- p_list f ;;
        ret (p :: more)
    end

  (* set.rs *)
  with p_set (fuel : nat) : M pat :=
    match fuel with
    | O => out_of_fuel
    | S f =>
      hash <- p_punct "#" ;;
      g <- in_group DParen (p_set_elems f) ;;
      match g with (_, _, spc, (elems, rest)) =>
        id <- fresh ;;
        let h := spans_span false hash in
        ret (PSet id (if join_ok then span_join h spc else h) rest elems)
      end
    end

  with p_set_elems (fuel : nat) : M (list pat * bool) :=
    match fuel with
    | O => out_of_fuel
    | S f =>
      e <- is_empty ;;
      if e then ret ([], false)
      else
        d <- peek peek_rest ;;
        if d then
          p_punct ".." ;;;
          c <- peek (peek_punct ",") ;;
          (if c then p_punct "," ;;; ret tt else ret tt) ;;;
          ret ([], true)
        else
          p <- p_pattern f ;;
          e2 <- is_empty ;;
          if e2 then ret ([p], false)
          else
            p_punct "," ;;;
            d2 <- peek peek_rest ;;
            if d2 then p_punct ".." ;;; ret ([p], true)
            else more <- p_set_elems f ;; ret (p :: fst more, snd more)
    end

  (* map.rs *)
  with p_map (fuel : nat) : M pat :=
    match fuel with
    | O => out_of_fuel
    | S f =>
      p_punct "#" ;;;
      g <- in_group DBrace (p_map_entries f) ;;
      match g with (_, spo, _, (entries, rest)) => id <- fresh ;; ret (PMap id spo rest entries) end
    end

  with p_map_entries (fuel : nat) : M (list (uexpr * pat) * bool) :=
    match fuel with
    | O => out_of_fuel
    | S f =>
      e <- is_empty ;;
      if e then ret ([], false)
      else
        d <- peek (peek_punct "..") ;;
        if d then p_punct ".." ;;; ret ([], true)
        else
          k <- p_expr ;;
          p_punct ":" ;;;
          p <- p_pattern f ;;
          e2 <- is_empty ;;
          if e2 then ret ([(eo_u k, p)], false)
          else
            p_punct "," ;;;
            d2 <- peek (peek_punct "..") ;;
            if d2 then p_punct ".." ;;; ret ([(eo_u k, p)], true)
            else more <- p_map_entries f ;; ret ((eo_u k, p) :: fst more, snd more)
    end.

  (* ---- parse.rs: impl Parse for AssertStruct, run by syn::parse ---------------------- *)

  Inductive top_result :=
  | TOk (value : uexpr) (p : pat)
  | TErr (sp : span)
  | TPanic (site : string)
  | TFuel.

  (* the counter the thread-local holds when the invocation starts is irrelevant: it is reset *)
  Definition parse_top_from (fuel : nat) (start : N) (ts : list ttree) : top_result :=
    let m := v <- p_expr ;; p_punct "," ;;; p <- p_pattern fuel ;; ret (eo_u v, p) in
    match m SCall {| toks := ts; ctr := 0%N; unx := None |} with
    | POk (v, p) st =>
        match unx st with
        | Some u => TErr u                               (* check_unexpected *)
        | None => match toks st with
                  | [] => TOk v p
                  | t :: _ => TErr (tspan t)             (* "unexpected token" *)
                  end
        end
    | PErr sp _ => TErr sp
    | PPanic s => TPanic s
    | PFuel => TFuel
    end.

  (* every call chain from one p_pattern to the next goes through at most four of the functions
     above and consumes at least one token *)
  Definition fuel_for (ts : list ttree) : nat := 4 * tsizes ts + 4.
  Definition parse_top (ts : list ttree) : top_result := parse_top_from (fuel_for ts) 0%N ts.

  (* the counter value left behind for the next invocation on the thread (used by the
     history stream of C14) *)
  Definition counter_after (fuel : nat) (ts : list ttree) : option N :=
    let m := v <- p_expr ;; p_punct "," ;;; p <- p_pattern fuel ;; ret (eo_u v, p) in
    match m SCall {| toks := ts; ctr := 0%N; unx := None |} with
    | POk _ st => Some (ctr st)
    | PErr _ c => Some c
    | _ => None
    end.
End Parser.
