(* FrontEnd.v — the macro as a whole: parse the invocation's tokens, then expand.
   `front_end` is what `pub fn assert_struct(input: TokenStream) -> TokenStream` does,
   up to the printing of the IR (Print.v). *)
From ASModel Require Import Base Tokens Report Ast IR Expand Parser.

(* does generating this code hit one of the expander's panic sites? *)
Fixpoint stmt_panics (s : stmt) : bool :=
  match s with
  | SPanic _ => true
  | SVariant _ _ _ _ body _ | SStruct _ _ _ _ _ body _ | SSeq body | STuple _ _ body | SSlice _ _ body _ =>
      existsb stmt_panics body
  | SMapGet _ _ _ body _ => stmt_panics body
  | SSet _ preds _ _ => existsb stmt_panics preds
  | _ => false
  end.

Inductive fe_result :=
| FEOk (value : uexpr) (p : pat) (code : stmt)
| FEErr (sp : span)                 (* a compile error attached to this span *)
| FEPanic (site : string)           (* "proc macro panicked" *)
| FEFuel.

Section FrontEnd.
  Variable regex join_ok : bool.
  Variable parse_expr : list ttree -> ores expr_ok.
  Variable parse_path : list ttree -> ores path_ok.
  Variable parse_closure : list ttree -> ores closure_ok.

  Definition front_end_from (start : N) (ts : list ttree) : fe_result :=
    match parse_top_from regex join_ok parse_expr parse_path parse_closure (fuel_for ts) start ts with
    | TOk v p =>
        let code := expand join_ok p (VRoot (u_toks v)) in
        if stmt_panics code then FEPanic "expand" else FEOk v p code
    | TErr sp => FEErr sp
    | TPanic s => FEPanic s
    | TFuel => FEFuel
    end.
  Definition front_end (ts : list ttree) : fe_result := front_end_from 0%N ts.
End FrontEnd.
