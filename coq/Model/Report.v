(* Report.v — model of PatternNode/NodeKind, error_label, Display for PatternNode
   and the fallback branch of Display for ErrorReport (assert-struct/src/error.rs). *)
From ASModel Require Import Base.
Local Open Scope string_scope.

Inductive cmp_op := OpLt | OpLe | OpGt | OpGe | OpEq | OpNe.

Definition cmp_op_str (o : cmp_op) : string :=
  match o with OpLt => "<" | OpLe => "<=" | OpGt => ">" | OpGe => ">=" | OpEq => "==" | OpNe => "!=" end.

(* NodeKind.  Child lists are represented by their lengths: labels and Display
   only ever use `items.len()` / `entries.len()` / `args.is_some()`. *)
Inductive node_kind :=
| KSlice (items : nat) (rest : bool)
| KSet (items : nat) (rest : bool)
| KTuple (items : nat)
| KMap (entries : nat) (rest : bool)
| KStruct (name : string) (fields : nat) (rest : bool)
| KEnum (path : string) (args : option nat)
| KSimple (value : string)
| KCmp (op : cmp_op) (value : string)
| KRange (pattern : string)
| KRegex (pattern : string)
| KLike (expr : string)
| KWildcard
| KClosure (closure : string).

(* impl Display for PatternNode *)
Definition node_display (k : node_kind) : string :=
  match k with
  | KStruct name _ _ => name ++ " { ... }"
  | KSlice _ _ => "[...]"
  | KSet _ _ => "#(...)"
  | KTuple n => "(" ++ string_repeat ".., " n ++ ")"
  | KMap n _ => "#{ " ++ nat_to_string n ++ " entries }"
  | KEnum path args => match args with Some _ => path ++ "(...)" | None => path end
  | KSimple v => v
  | KCmp op v => cmp_op_str op ++ " " ++ v
  | KRange p => p
  | KRegex p => "=~ " ++ p
  | KLike e => "=~ " ++ e
  | KWildcard => "_"
  | KClosure c => c
  end.

(* fn error_label(error) *)
Definition error_label (k : node_kind) (actual : string) (expected : option string) : string :=
  match k with
  | KCmp OpEq _ =>
      "expected " ++ (match expected with Some e => e | None => "?" end) ++ ", got " ++ actual
  | KEnum _ _ => "expected variant " ++ node_display k ++ ", got " ++ actual
  | KSlice n rest =>
      if rest then "slice pattern mismatch, got " ++ actual
      else "expected slice with " ++ nat_to_string n ++ " "
           ++ (if Nat.eqb n 1 then "element" else "elements") ++ ", got " ++ actual
  | KSet _ rest =>
      if rest then "set pattern mismatch, got " ++ actual
      else "set pattern mismatch (exact), got " ++ actual
  | KClosure _ => "closure condition not satisfied, got " ++ actual
  | _ => "got " ++ actual
  end.

(* One collected error, reduced to what Display uses. *)
Record fentry := {
  e_kind : node_kind;
  e_line_start : N;
  e_actual : string;
  e_expected : option string
}.

Definition entry_label (e : fentry) : string := error_label (e_kind e) (e_actual e) (e_expected e).

(* the `else` branch of Display for ErrorReport (source unreadable) *)
Definition fallback_display (rel_path : string) (errors : list fentry) : string :=
  match errors with
  | [] => ""
  | _ => "assert_struct! failed:" ++
         string_concat (map (fun e => String "010" "  --> " ++ rel_path ++ ":" ++ N_to_string (e_line_start e)
                                       ++ String "010" "  " ++ entry_label e) errors)
  end.
