(* Ast.v — the Pattern tree of assert-struct-macros/src/pattern/*.rs.
   User-written expressions, paths and closures are opaque: their tokens (with
   spans), their quote!{}.to_string() text and their syn span. *)
From ASModel Require Import Base Tokens Report.

Record uexpr := { u_text : string; u_strlit : bool; u_span : span; u_toks : list tok }.

Record rpath := { p_text : string; p_span : span;
                  p_first : option span;     (* first segment's ident *)
                  p_last : option span;      (* last segment's ident *)
                  p_toks : list tok }.

(* x.span() as syn computes it at expansion time, from the tokens *)
Definition expr_span (join_ok : bool) (u : uexpr) : span := toks_span join_ok (u_toks u).
Definition path_span (join_ok : bool) (p : rpath) : span := toks_span join_ok (p_toks p).

(* FieldName *)
Inductive field_name := FIdent (name : string) (sp : span) | FIndex (n : N) (sp : span).

Definition field_name_eqb (a b : field_name) : bool :=
  match a, b with
  | FIdent s _, FIdent t _ => String.eqb s t      (* syn::Ident equality ignores the span *)
  | FIndex n _, FIndex m _ => N.eqb n m           (* syn::Index equality ignores the span *)
  | _, _ => false
  end.

Definition field_name_str (f : field_name) : string :=
  match f with FIdent s _ => s | FIndex n _ => N_to_string n end.

(* FieldOperation *)
Inductive fop :=
| ODeref (count : nat) (sp : span)
| OMethod (name : string) (nsp : span) (sp : span) (args : list uexpr)
| OAwait (sp : span)
| ONamed (name : string) (nsp : span) (sp : span)
| OUnnamed (idx : N) (sp : span)
| OIndex (e : uexpr) (sp : span)
| OChained (sp : span) (ops : list fop).

(* Pattern.  A tuple / variant element is (None, p) when positional and
   (Some ops, p) when written `ops: p` (TupleElement::Indexed). *)
Inductive pat :=
| PSimple (id : N) (e : uexpr)
| PString (id : N) (lit : string) (lsp : span) (value : string)
| PCmp (id : N) (op : cmp_op) (osp : span) (e : uexpr)
| PRange (id : N) (e : uexpr) (parts : option (option uexpr * span * bool * option uexpr))
| PRegex (id : N) (pattern : string) (sp : span)
| PLike (id : N) (e : uexpr)
| PWild (id : N)
| PClosure (id : N) (c : uexpr)
| PStruct (id : N) (path : option rpath) (rest : bool) (fields : list (fop * pat))
| PEnum (id : N) (path : rpath) (elems : list (option fop * pat))
| PTuple (id : N) (sp : span) (elems : list (option fop * pat))
| PSlice (id : N) (sp : span) (elems : list pat)
| PSet (id : N) (sp : span) (rest : bool) (elems : list pat)
| PMap (id : N) (sp : span) (rest : bool) (entries : list (uexpr * pat)).

Definition pat_id (p : pat) : N :=
  match p with
  | PSimple id _ | PString id _ _ _ | PCmp id _ _ _ | PRange id _ _ | PRegex id _ _ | PLike id _
  | PWild id | PClosure id _ | PStruct id _ _ _ | PEnum id _ _ | PTuple id _ _ | PSlice id _ _
  | PSet id _ _ _ | PMap id _ _ _ => id
  end.

(* `..` inside a slice pattern: a range with neither bound *)
Definition is_rest_range (p : pat) : bool :=
  match p with
  | PRange _ _ (Some (None, _, _, None)) => true
  | _ => false
  end.

Definition is_wild (p : pat) : bool := match p with PWild _ => true | _ => false end.

(* ---- FieldOperation::root_field_name / tail_operations -------------------
   None models the panic! / expect() in the Rust code. *)

Definition is_deref (o : fop) : bool := match o with ODeref _ _ => true | _ => false end.
Definition is_field_access (o : fop) : bool :=
  match o with ONamed _ _ _ | OUnnamed _ _ => true | _ => false end.

Fixpoint root_field_name (o : fop) : option field_name :=
  match o with
  | ONamed name nsp _ => Some (FIdent name nsp)
  | OUnnamed i sp => Some (FIndex i sp)
  | OChained _ ops =>
      (fix first_non_deref (l : list fop) : option field_name :=
         match l with
         | [] => None                                   (* expect(...) fails *)
         | x :: r => if is_deref x then first_non_deref r else root_field_name x
         end) ops
  | _ => None                                           (* panic!(...) *)
  end.

Fixpoint position {A} (f : A -> bool) (l : list A) : option nat :=
  match l with
  | [] => None
  | x :: r => if f x then Some 0 else option_map S (position f r)
  end.

Inductive tail_result := TailNone | TailSome (o : fop) | TailPanic.

Definition tail_operations (o : fop) : tail_result :=
  match o with
  | ONamed _ _ _ | OUnnamed _ _ => TailNone
  | OChained sp ops =>
      match position is_field_access ops with
      | None => TailPanic                               (* expect(...) fails *)
      | Some i =>
          match firstn i ops ++ skipn (S i) ops with
          | [] => TailNone
          | [x] => TailSome x
          | t => TailSome (OChained sp t)
          end
      end
  | _ => TailNone
  end.

(* usize -> syn::Index::from asserts index < u32::MAX *)
Definition index_fits (n : N) : bool := N.ltb n 4294967295.
