(* IR.v — the code assert_struct! generates, one constructor per template of
   assert-struct-macros/src/expand.rs.  Print.v turns it into the exact token
   sequence; Sem.v gives it a meaning. *)
From ASModel Require Import Base Tokens Report Ast.

(* identifiers the expansion introduces *)
Inductive name :=
| NElem (i : nat) | NTupleElem (i : nat)
| NMapValue | NSetElem | NSetIdx | NSetSrc | NSetColl | NSetPred (i : nat) | NSetPreds
| NReport | NTmp | NActual | NRe.

(* value expressions: what a generator splices in as "the value to test" *)
Inductive vexpr :=
| VRoot (toks : list tok)                      (* the asserted expression, as written *)
| VBind (n : name)                             (* an identifier the expansion bound (call-site span) *)
| VFieldBind (f : field_name)                  (* quote!{ #field_name }: a struct field's binder, spelled and spanned as the user wrote the field *)
| VRef (e : vexpr)                             (* & e *)
| VField (e : vexpr) (f : field_name)          (* (e).f *)
| VDeref (sp : span) (e : vexpr)               (* *e *)
| VMethod (sp : span) (e : vexpr) (m : string) (msp : span) (args : list uexpr)
| VAwait (sp : span) (e : vexpr)
| VNamed (sp : span) (e : vexpr) (f : string) (fsp : span)
| VUnnamed (sp : span) (e : vexpr) (i : N)
| VIndex (sp : span) (e : vexpr) (i : uexpr).

Inductive actual :=
| ADebug (e : vexpr)          (* format!("{:?}", e) *)
| ADebugRef (e : vexpr)       (* format!("{:?}", &e) *)
| ADebugActual                (* format!("{:?}", actual) — the string generator's helper *)
| AMapLen (e : vexpr)         (* format!("map with {} entries", (e).len()) *)
| AMissingKey.                (* "missing key".to_string() *)

Inductive expected :=
| ENone
| EText (s : string)          (* Some("<s>".to_string()) *)
| EEntries (n : nat)          (* Some(format!("{} entries", <n>usize)) *)
| EKeyPresent (s : string).   (* Some(format!("key present: {}", "<s>")) *)

Record push := { ps_span : span; ps_node : N; ps_actual : actual; ps_expected : expected }.

Inductive slice_part := SPRest | SPWild | SPBind (i : nat).

Inductive stmt :=
| SNop
| SPanic (site : string)                       (* the macro itself would panic here *)
| SSimple (sp : span) (e : vexpr) (pat_toks : list tok) (p : push)
| SString (sp : span) (e : vexpr) (lit : string) (lsp : span) (p : push)
| SCmp (sp : span) (op : cmp_op) (e : vexpr) (operand : uexpr) (p : push)
| SUnit (sp : span) (e : vexpr) (path : rpath) (p : push)
| SVariant (sp : span) (e : vexpr) (path : rpath) (binders : list (option nat)) (body : list stmt) (p : push)
| SStruct (sp : span) (e : vexpr) (path : rpath) (fields : list field_name) (rest : bool) (body : list stmt) (p : push)
| SSeq (body : list stmt)
| STuple (e : vexpr) (binders : list (option nat)) (body : list stmt)
| SRange (sp : span) (e : vexpr) (range : list tok) (parts : option (option uexpr * bool * option uexpr)) (p : push)
| SSlice (e : vexpr) (parts : list slice_part) (body : list stmt) (p : push)
| SRegex (sp : span) (e : vexpr) (pattern : string) (p : push)
| SLike (sp : span) (e : vexpr) (expr : uexpr) (p : push)
| SClosure (sp : span) (e : vexpr) (closure : uexpr) (p : push)
| SMapLen (sp : span) (e : vexpr) (n : nat) (p : push)
| SMapGet (sp : span) (e : vexpr) (key : uexpr) (body : stmt) (missing : push)
| SSet (e : vexpr) (preds : list stmt) (rest : bool) (node : N).
