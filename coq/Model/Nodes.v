(* Nodes.v — the pattern-node table of assert-struct-macros/src/expand/nodes.rs:
   one PatternNode constant per pattern node, children before parents. *)
From ASModel Require Import Base Tokens Report Ast.
Local Open Scope string_scope.

Definition loc := (N * N * N * N)%type.

Definition span_start (s : span) : N * N := match s with SPos l c _ _ => (l, c) | SCall => (0, 0)%N end.
Definition span_end (s : span) : N * N := match s with SPos _ _ l c => (l, c) | SCall => (0, 0)%N end.
Definition mkloc (a b : N * N) : loc := (fst a, snd a, fst b, snd b).

Section Loc.
  Variable join_ok : bool.

  Local Notation expr_span := (Ast.expr_span join_ok).

  (* Pattern::location *)
  Definition location (p : pat) : loc :=
    match p with
    | PSimple _ e => mkloc (span_start (expr_span e)) (span_end (expr_span e))
    | PString _ _ lsp _ => mkloc (span_start lsp) (span_end lsp)
    | PCmp _ _ osp e => mkloc (span_start osp) (span_end (expr_span e))
    | PRange _ e parts =>
        match parts with
        | Some (lo, lim, _, hi) =>
            mkloc (match lo with Some s => span_start (expr_span s) | None => span_start lim end)
                  (match hi with Some s => span_end (expr_span s) | None => span_end lim end)
        | None => mkloc (span_start (expr_span e)) (span_end (expr_span e))
        end
    | PRegex _ _ sp => mkloc (span_start sp) (span_end sp)
    | PLike _ e => mkloc (span_start (expr_span e)) (span_end (expr_span e))
    | PStruct _ (Some path) _ _ | PEnum _ path _ =>
        match p_first path, p_last path with
        | Some a, Some b => mkloc (span_start a) (span_end b)
        | _, _ => (0, 0, 0, 0)%N
        end
    | PClosure _ c => mkloc (span_start (expr_span c)) (span_end (expr_span c))
    | PTuple _ sp _ | PSlice _ sp _ | PSet _ sp _ _ | PMap _ sp _ _ => mkloc (span_start sp) (span_end sp)
    | PStruct _ None _ _ | PWild _ => (0, 0, 0, 0)%N
    end.
End Loc.

(* the structured node table *)
Inductive node_desc :=
| NDSlice (items : list N) (rest : bool)
| NDSet (items : list N) (rest : bool)
| NDTuple (items : list N)
| NDMap (entries : list (string * N)) (rest : bool)
| NDStruct (name : string) (fields : list (string * N)) (rest : bool)
| NDEnum (path : string) (args : option (list N))
| NDSimple (value : string)
| NDCmp (op : cmp_op) (value : string)
| NDRange (pattern : string)
| NDRegex (pattern : string)
| NDLike (expr : string)
| NDWild
| NDClosure (closure : string).

Record node := { n_id : N; n_desc : node_desc; n_parent : option N; n_loc : loc }.

(* " :: " -> "::" in a path's token-stream rendering *)
Fixpoint replace_colons (s : string) : string :=
  match s with
  | String " " (String ":" (String ":" (String " " r))) => String ":" (String ":" (replace_colons r))
  | String c r => String c (replace_colons r)
  | EmptyString => EmptyString
  end.


Section Gen.
  Variable join_ok : bool.

  (* generate_pattern_nodes: returns the definitions in the order they are pushed
     (post-order) — the node for p itself is last *)
  Fixpoint gen_nodes (p : pat) (parent : option N) {struct p} : list node :=
    let id := pat_id p in
    let mk d := {| n_id := id; n_desc := d; n_parent := parent; n_loc := location join_ok p |} in
    match p with
    | PSimple _ e => [mk (NDSimple (u_text e))]
    | PString _ _ _ v => [mk (NDSimple (String """" (v ++ String """" EmptyString)))]
    | PCmp _ op _ e => [mk (NDCmp op (u_text e))]
    | PRange _ e _ => [mk (NDRange (u_text e))]
    | PRegex _ pattern _ => [mk (NDRegex ("r""" ++ pattern ++ """"))]
    | PLike _ e => [mk (NDLike (u_text e))]
    | PWild _ => [mk NDWild]
    | PClosure _ c => [mk (NDClosure (u_text c))]
    | PEnum _ path elems =>
        flat_map (fun el => gen_nodes (snd el) (Some id)) elems ++
        [mk (NDEnum (replace_colons (p_text path))
                    (match elems with [] => None | _ => Some (map (fun el => pat_id (snd el)) elems) end))]
    | PTuple _ _ elems =>
        flat_map (fun el => gen_nodes (snd el) (Some id)) elems ++
        [mk (NDTuple (map (fun el => pat_id (snd el)) elems))]
    | PSlice _ _ elems =>
        (* `..` contributes the rest flag, not a child node *)
        let items := filter (fun el => negb (is_rest_range el)) elems in
        flat_map (fun el => if is_rest_range el then [] else gen_nodes el (Some id)) elems ++
        [mk (NDSlice (map pat_id items) (existsb is_rest_range elems))]
    | PStruct _ path rest fields =>
        flat_map (fun fp => gen_nodes (snd fp) (Some id)) fields ++
        [mk (NDStruct (match path with Some pth => replace_colons (p_text pth) | None => "_" end)
                      (map (fun fp => (match root_field_name (fst fp) with
                                       | Some f => field_name_str f | None => "<panic>" end,
                                       pat_id (snd fp))) fields)
                      rest)]
    | PSet _ _ rest elems =>
        flat_map (fun el => gen_nodes el (Some id)) elems ++
        [mk (NDSet (map pat_id elems) rest)]
    | PMap _ _ rest entries =>
        flat_map (fun kv => gen_nodes (snd kv) (Some id)) entries ++
        [mk (NDMap (map (fun kv => (u_text (fst kv), pat_id (snd kv))) entries) rest)]
    end.
End Gen.

(* what error.rs's labels need from a node *)
Definition node_kind_of (d : node_desc) : node_kind :=
  match d with
  | NDSlice items rest => KSlice (List.length items) rest
  | NDSet items rest => KSet (List.length items) rest
  | NDTuple items => KTuple (List.length items)
  | NDMap entries rest => KMap (List.length entries) rest
  | NDStruct name fields rest => KStruct name (List.length fields) rest
  | NDEnum path args => KEnum path (option_map (@List.length N) args)
  | NDSimple v => KSimple v
  | NDCmp op v => KCmp op v
  | NDRange p => KRange p
  | NDRegex p => KRegex p
  | NDLike e => KLike e
  | NDWild => KWildcard
  | NDClosure c => KClosure c
  end.
