(* Spec.v — the documented meaning of a pattern, written directly on the pattern
   tree and the value, without reference to the generated code:
     frontier p v = Some entries : the failure frontier of p on v, in pattern order
                                   (Some [] = the value satisfies the pattern);
     frontier p v = None         : the triple is ill-typed or outside the modelled
                                   sub-language of user expressions. *)
From ASModel Require Import Base Tokens Report Ast SetMatch Values.

Definition strip1 (v : value) : option value :=
  match v with VRefV w | VBoxV w => Some w | _ => None end.

Fixpoint strip_n (n : nat) (v : value) : option value :=
  match n with
  | O => Some v
  | S k => match strip1 v with Some w => strip_n k w | None => None end
  end.

Section Spec.
  Variable caller : list (string * value).      (* the caller's variables *)
  Variable units : list string.                 (* identifiers that name a unit variant / constant *)

  (* the value reached by a written field operation *)
  Fixpoint fop_val (v : value) (o : fop) {struct o} : option value :=
    match o with
    | ODeref count _ => strip_n count v
    | OMethod m _ _ args =>
        match all_some (map (ueval caller) args) with
        | Some avs => method_sem m v avs
        | None => None
        end
    | OAwait _ => None
    | ONamed f _ _ => field_of v f
    | OUnnamed i _ => elem_of v i
    | OIndex i _ =>
        match ueval caller i, auto_deref v with
        | Some (VInt k), VVecV vs => if Z.ltb k 0 then None else nth_error vs (Z.to_nat k)
        | _, _ => None
        end
    | OChained _ ops =>
        (fix go (l : list fop) (w : value) : option value :=
           match l with
           | [] => Some w
           | x :: r => match fop_val w x with Some w' => go r w' | None => None end
           end) ops v
    end.

  (* the value a field assertion `ops: pattern` tests, given the value of its root field *)
  Definition tail_val (ops : fop) (fv : value) : option value :=
    match tail_operations ops with
    | TailNone => Some fv
    | TailSome t => fop_val fv t
    | TailPanic => None
    end.

  Definition mk_entry (id : N) (a : atext) (x : option string) : entry :=
    {| en_node := id; en_actual := a; en_expected := x |}.

  Definition leaf (id : N) (ok : option bool) (v : value) (x : option string) : option (list entry) :=
    match ok with
    | None => None
    | Some true => Some []
    | Some false => Some [mk_entry id (TDebug (peel v)) x]
    end.

  Fixpoint concat_opt {A} (l : list (option (list A))) : option (list A) :=
    match l with
    | [] => Some []
    | Some a :: r => match concat_opt r with Some t => Some (a ++ t) | None => None end
    | None :: _ => None
    end.

  Definition app_opt {A} (a b : option (list A)) : option (list A) :=
    match a, b with Some x, Some y => Some (x ++ y) | _, _ => None end.

  Definition set_expected (n : nat) (rest : bool) (k : nat) : option string :=
    if negb (length_ok n rest k)
    then Some (if rest then "at least " ++ nat_to_string k ++ " element(s)" else nat_to_string k ++ " element(s)")%string
    else None.

  Fixpoint frontier (p : pat) (v : value) {struct p} : option (list entry) :=
    match p with
    | PSimple id x => leaf id (lit_pat_matches (u_toks x) v) v None
    | PString id lit _ _ =>
        match parse_str_lit lit, peel v with
        | Some s, VStr w => leaf id (Some (String.eqb s w)) v None
        | _, _ => None
        end
    | PCmp id op _ x =>
        match ueval caller x with
        | Some w => leaf id (cmp_holds op v w) v (match op with OpEq => Some (u_text x) | _ => None end)
        | None => None
        end
    | PRange id _ parts =>
        leaf id (range_holds (match parts with Some (lo, _, incl, hi) => Some (lo, incl, hi) | None => None end) v) v None
    | PRegex id pattern _ =>
        match peel v with VStr s => leaf id (regex_match pattern s) v None | _ => None end
    | PLike id x =>
        match ueval caller x with
        | Some w => match peel v, peel w with
                    | VStr s, VStr re => leaf id (regex_match re s) v None
                    | _, _ => None
                    end
        | None => None
        end
    | PWild _ => Some []
    | PClosure id c => leaf id (closure_sem c v) v None
    | PStruct id (Some path) rest fields =>
        match path_last path, peel v with
        | Some nm, VStructV n vals =>
            if String.eqb n nm then
              (* exhaustiveness: `..` is the only way to omit fields *)
              if rest || forallb (fun fv => existsb (fun fp => match root_field_name (fst fp) with
                                                               | Some f => String.eqb (field_name_str f) (fst fv)
                                                               | None => false end) fields) vals
              then concat_opt (map (fun fp =>
                                      match root_field_name (fst fp) with
                                      | Some f => match assoc (field_name_str f) vals with
                                                  | Some fv => match tail_val (fst fp) fv with
                                                               | Some cv => frontier (snd fp) cv
                                                               | None => None
                                                               end
                                                  | None => None
                                                  end
                                      | None => None
                                      end) fields)
              else None
            else Some [mk_entry id (TDebug (peel v)) None]
        | Some _, VVariantV _ _ => Some [mk_entry id (TDebug (peel v)) None]
        | _, _ => None
        end
    | PStruct id None _ fields =>
        concat_opt (map (fun fp =>
                           match root_field_name (fst fp) with
                           | Some (FIdent f _) =>
                               match field_of v f with
                               | Some fv => match tail_val (fst fp) fv with
                                            | Some cv => frontier (snd fp) cv
                                            | None => None
                                            end
                               | None => None
                               end
                           | Some (FIndex i _) =>
                               match elem_of v i with
                               | Some fv => match tail_val (fst fp) fv with
                                            | Some cv => frontier (snd fp) cv
                                            | None => None
                                            end
                               | None => None
                               end
                           | None => None
                           end) fields)
    | PEnum id path elems =>
        match path_last path with
        | None => None
        | Some nm =>
            match elems with
            | [] =>
                if path_single path && negb (existsb (String.eqb nm) units) then
                  (* an identifier that names no unit variant or constant: the documented meaning
                     of a value written in a pattern is equality with that value *)
                  match assoc nm caller with
                  | Some w => leaf id (Some (value_eqb (peel v) (peel w))) v None
                  | None => None
                  end
                else match peel v with
                     | VVariantV n [] => leaf id (Some (String.eqb n nm)) v None
                     | VVariantV _ _ | VStructV _ _ => leaf id (Some false) v None
                     | _ => None
                     end
            | _ =>
                match peel v with
                | VVariantV n args =>
                    if String.eqb n nm then
                      (fix go (els : list (option fop * pat)) (vals : list value) : option (list entry) :=
                         match els, vals with
                         | [], [] => Some []
                         | el :: er, a :: ar =>
                             app_opt (match fst el with
                                      | None => frontier (snd el) a
                                      | Some o => match tail_val o a with
                                                  | Some cv => frontier (snd el) cv
                                                  | None => None
                                                  end
                                      end) (go er ar)
                         | _, _ => None                   (* arity *)
                         end) elems args
                    else Some [mk_entry id (TDebug (peel v)) None]
                | VStructV _ _ => Some [mk_entry id (TDebug (peel v)) None]
                | _ => None
                end
            end
        end
    | PTuple id _ elems =>
        match peel v with
        | VTupleV vs =>
            (fix go (els : list (option fop * pat)) (vals : list value) : option (list entry) :=
               match els, vals with
               | [], [] => Some []
               | el :: er, a :: ar =>
                   app_opt (match fst el with
                            | None => frontier (snd el) a
                            | Some o => match tail_val o a with
                                        | Some cv => frontier (snd el) cv
                                        | None => None
                                        end
                            end) (go er ar)
               | _, _ => None                             (* arity *)
               end) elems vs
        | _ => None
        end
    | PSlice id _ elems =>
        match elements_of v with
        | Some vs =>
            let pairwise :=
              (fix pw (els : list pat) (vals : list value) : option (list entry) :=
                 match els, vals with
                 | [], [] => Some []
                 | x :: r, a :: ar => app_opt (frontier x a) (pw r ar)
                 | _, _ => None
                 end) in
            let nrest := List.length (filter is_rest_range elems) in
            let k := List.length elems - nrest in
            match nrest with
            | 0 => if Nat.eqb (List.length vs) k then pairwise elems vs
                   else Some [mk_entry id (TDebug (peel v)) None]
            | 1 => if Nat.leb k (List.length vs) then
                     (fix go (els : list pat) (vals : list value) : option (list entry) :=
                        match els with
                        | [] => Some []
                        | x :: r =>
                            if is_rest_range x then pairwise r (skipn (List.length vals - List.length r) vals)
                            else match vals with
                                 | a :: ar => app_opt (frontier x a) (go r ar)
                                 | [] => None
                                 end
                        end) elems vs
                   else Some [mk_entry id (TDebug (peel v)) None]
            | _ => None                                   (* two `..`: rejected by rustc *)
            end
        | None => None
        end
    | PSet id _ rest elems =>
        match elements_of v with
        | Some vs =>
            match all_some (map (fun el => all_some (map (fun x => match frontier el x with
                                                                   | Some [] => Some true
                                                                   | Some _ => Some false
                                                                   | None => None
                                                                   end) vs)) elems) with
            | Some M =>
                (* passes iff a one-to-one assignment exists and the length rule holds *)
                if brute_force (List.length vs) rest M then Some []
                else Some [mk_entry id (TSetLen (List.length vs)) (set_expected (List.length vs) rest (List.length M))]
            | None => None
            end
        | None => None
        end
    | PMap id _ rest entries =>
        match auto_deref v with
        | VMapV kvs =>
            match concat_opt (map (fun kv =>
                                     match ueval caller (fst kv) with
                                     | Some k =>
                                         match map_get k kvs with
                                         | Some w => frontier (snd kv) w
                                         | None => Some [mk_entry id TMissingKey (Some ("key present: " ++ u_text (fst kv))%string)]
                                         end
                                     | None => None
                                     end) entries) with
            | Some es =>
                if rest || Nat.eqb (List.length kvs) (List.length entries) then Some es
                else Some (mk_entry id (TMapLen (List.length kvs)) (Some (nat_to_string (List.length entries) ++ " entries")%string) :: es)
            | None => None
            end
        | _ => None
        end
    end.

  Definition sat (p : pat) (v : value) : Prop := frontier p v = Some [].
End Spec.
