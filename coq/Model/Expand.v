(* Expand.v — the expander of assert-struct-macros/src/expand.rs, generator by
   generator, producing IR.  `join_ok` is only used where the Rust code calls
   syn's Spanned::span at expansion time: spans stored by the parser arrive in
   the tree. *)
From ASModel Require Import Base Tokens Report Ast IR.

(* apply_field_operations *)
Fixpoint apply_ops (base : vexpr) (o : fop) : vexpr :=
  match o with
  | ODeref count sp =>
      (* "In reference context, we need one extra dereference": count + 1 stars *)
      Nat.iter (S count) (VDeref sp) base
  | OMethod name nsp sp args => VMethod sp base name nsp args
  | OAwait sp => VAwait sp base
  | ONamed name nsp sp => VNamed sp base name nsp
  | OUnnamed idx sp => VUnnamed sp base idx
  | OIndex i sp => VIndex sp base i
  | OChained _ ops => fold_left apply_ops ops base
  end.

(* syn::Index::from panics for an index that does not fit in u32 *)
Fixpoint ops_index_ok (o : fop) : bool :=
  match o with
  | OUnnamed idx _ => index_fits idx
  | OChained _ ops => forallb ops_index_ok ops
  | _ => true
  end.

Definition field_name_index_ok (f : field_name) : bool :=
  match f with FIndex n _ => index_fits n | FIdent _ _ => true end.

Definition mk_push (sp : span) (id : N) (a : actual) (x : expected) : push :=
  {| ps_span := sp; ps_node := id; ps_actual := a; ps_expected := x |}.

(* unique_field_names: first occurrence of each root field, in order *)
Fixpoint dedup_fields (seen : list field_name) (l : list field_name) : list field_name :=
  match l with
  | [] => []
  | f :: r => if existsb (field_name_eqb f) seen then dedup_fields seen r
              else f :: dedup_fields (f :: seen) r
  end.

Section Expand.
  Variable join_ok : bool.

  Definition uspan (u : uexpr) : span := expr_span join_ok u.

  (* expand_field_assertion / the wildcard-struct variant: apply the tail
     operations to `base`; `noops` is what is tested when there are none *)
  Definition with_tail (ops : fop) (base noops : vexpr) (k : vexpr -> stmt) : stmt :=
    match tail_operations ops with
    | TailPanic => SPanic "tail_operations: Chained operation must have at least one field access"
    | TailNone => k noops
    | TailSome t => if ops_index_ok t then k (apply_ops base t)
                    else SPanic "syn::Index::from: index does not fit in u32"
    end.

  Fixpoint expand (p : pat) (e : vexpr) {struct p} : stmt :=
    match p with
    | PSimple id x =>
        let sp := uspan x in
        SSimple sp e (u_toks x) (mk_push sp id (ADebug e) ENone)
    | PString id lit lsp _ =>
        SString lsp e lit lsp (mk_push lsp id ADebugActual ENone)
    | PCmp id op _ x =>
        let sp := uspan x in
        SCmp sp op e x
             (mk_push sp id (ADebug e) (match op with OpEq => EText (u_text x) | _ => ENone end))
    | PRange id x parts =>
        let sp := uspan x in
        SRange sp e (u_toks x)
               (match parts with Some (lo, _, incl, hi) => Some (lo, incl, hi) | None => None end)
               (mk_push sp id (ADebug e) ENone)
    | PRegex id pattern sp =>
        SRegex sp e pattern (mk_push sp id (ADebug e) ENone)
    | PLike id x =>
        let sp := uspan x in
        SLike sp e x (mk_push sp id (ADebug e) ENone)
    | PWild _ => SNop
    | PClosure id c =>
        let sp := uspan c in
        SClosure sp e c (mk_push sp id (ADebug e) ENone)
    | PStruct id None _ fields =>
        (* expand_struct_wildcard_assertion: field access, no bindings *)
        SSeq (map (fun fp =>
                     let '(ops, fpat) := fp in
                     match root_field_name ops with
                     | None => SPanic "root_field_name"
                     | Some fname =>
                         if field_name_index_ok fname then
                           let base := VField e fname in
                           with_tail ops base (VRef base) (expand fpat)
                         else SPanic "syn::Index::from: index does not fit in u32"
                     end) fields)
    | PStruct id (Some path) rest fields =>
        let sp := path_span join_ok path in
        let roots := map (fun fp => root_field_name (fst fp)) fields in
        if existsb (fun r => match r with None => true | Some f => negb (field_name_index_ok f) end) roots
        then SPanic "root_field_name / syn::Index::from"
        else
          let names := dedup_fields [] (flat_map (fun r => match r with Some f => [f] | None => [] end) roots) in
          SStruct sp e path names rest
                  (map (fun fp =>
                          let '(ops, fpat) := fp in
                          match root_field_name ops with
                          | None => SPanic "root_field_name"
                          | Some fname => let base := VFieldBind fname in
                                          with_tail ops base base (expand fpat)
                          end) fields)
                  (mk_push sp id (ADebug e) ENone)
    | PEnum id path elems =>
        let sp := path_span join_ok path in
        let pu := mk_push sp id (ADebug e) ENone in
        match elems with
        | [] => SUnit sp e path pu
        | _ =>
            SVariant sp e path
              (mapi (fun i el => if is_wild (snd el) then None else Some i) elems)
              (flat_map (fun x => x)
                 (mapi (fun i el =>
                          let '(ops, ep) := el in
                          if is_wild ep then []
                          else match ops with
                               | None => [expand ep (VBind (NElem i))]
                               | Some o => let base := VBind (NElem i) in [with_tail o base base (expand ep)]
                               end) elems))
              pu
        end
    | PTuple id _ elems =>
        STuple e
          (mapi (fun i el => if is_wild (snd el) then None else Some i) elems)
          (flat_map (fun x => x)
             (mapi (fun i el =>
                      let '(ops, ep) := el in
                      if is_wild ep then []
                      else match ops with
                           | None => [expand ep (VBind (NTupleElem i))]
                           | Some o => let base := VBind (NTupleElem i) in [with_tail o base base (expand ep)]
                           end) elems))
    | PSlice id _ elems =>
        SSlice e
          (mapi (fun i el => if is_rest_range el then SPRest else if is_wild el then SPWild else SPBind i) elems)
          (flat_map (fun x => x)
             (mapi (fun i el => if is_rest_range el || is_wild el then [] else [expand el (VBind (NElem i))]) elems))
          (mk_push SCall id (ADebugRef e) ENone)
    | PSet id _ rest elems =>
        SSet e (map (fun el => expand el (VBind NSetElem)) elems) rest id
    | PMap id _ rest entries =>
        let map_span := match entries with [] => SCall | (k, _) :: _ => uspan k end in
        let len_check :=
          if rest then []
          else [SMapLen map_span e (List.length entries)
                        (mk_push map_span id (AMapLen e) (EEntries (List.length entries)))] in
        SSeq (len_check ++
              map (fun kv =>
                     let '(k, vp) := kv in
                     let sp := uspan k in
                     SMapGet sp e k (expand vp (VBind NMapValue))
                             (mk_push sp id AMissingKey (EKeyPresent (u_text k)))) entries)
    end.
End Expand.
