(* Values.v — dynamic values for the semantics of the generated code and for the
   specification, and the (deliberately small) interpretation of the opaque
   user-written expressions: literals, caller variables, simple closures, simple
   regexes.  Everything outside that sub-language evaluates to None ("out of model"). *)
From ASModel Require Import Base Tokens Report Ast.
Local Open Scope string_scope.

Inductive value :=
| VInt (z : Z)
| VBool (b : bool)
| VStr (s : string)
| VUnit
| VFloat (f : option Z)                               (* f64: Some z is the float z.0, None is NaN (incomparable with everything) *)
| VRefV (v : value)                                   (* one reference layer: &T *)
| VBoxV (v : value)                                   (* Box / Rc / Arc *)
| VTupleV (vs : list value)
| VStructV (name : string) (fields : list (string * value))   (* struct or struct variant *)
| VVariantV (name : string) (args : list value)              (* unit / tuple variant, tuple struct *)
| VVecV (vs : list value)                             (* Vec, slice, array; sets in iteration order *)
| VViewV (name : string) (vs : list value)            (* a slice-like value that is not a Vec: slice::Iter, vec::IntoIter, a user
                                                         type with an as_slice() accessor; prints as name([..]), matches as its slice *)
| VMapV (kvs : list (value * value)).

(* match ergonomics and method auto-ref look through references ... *)
Fixpoint peel (v : value) : value :=
  match v with VRefV w => peel w | _ => v end.

(* ... field access, indexing and method calls also through Box (Deref) *)
Fixpoint auto_deref (v : value) : value :=
  match v with VRefV w | VBoxV w => auto_deref w | _ => v end.

Fixpoint value_eqb (a b : value) {struct a} : bool :=
  match a, b with
  | VInt x, VInt y => Z.eqb x y
  | VBool x, VBool y => Bool.eqb x y
  | VStr x, VStr y => String.eqb x y
  | VUnit, VUnit => true
  | VFloat x, VFloat y => match x, y with Some a, Some b => Z.eqb a b | None, None => true | _, _ => false end
  | VRefV x, VRefV y | VBoxV x, VBoxV y => value_eqb x y
  | VTupleV xs, VTupleV ys | VVecV xs, VVecV ys =>
      (fix go (l1 l2 : list value) : bool :=
         match l1, l2 with
         | [], [] => true
         | x :: r1, y :: r2 => value_eqb x y && go r1 r2
         | _, _ => false
         end) xs ys
  | VViewV n xs, VViewV m ys =>
      String.eqb n m &&
      (fix go (l1 l2 : list value) : bool :=
         match l1, l2 with
         | [], [] => true
         | x :: r1, y :: r2 => value_eqb x y && go r1 r2
         | _, _ => false
         end) xs ys
  | VVariantV n xs, VVariantV m ys =>
      String.eqb n m &&
      (fix go (l1 l2 : list value) : bool :=
         match l1, l2 with
         | [], [] => true
         | x :: r1, y :: r2 => value_eqb x y && go r1 r2
         | _, _ => false
         end) xs ys
  | VStructV n xs, VStructV m ys =>
      String.eqb n m &&
      (fix go (l1 l2 : list (string * value)) : bool :=
         match l1, l2 with
         | [], [] => true
         | (f, x) :: r1, (g, y) :: r2 => String.eqb f g && value_eqb x y && go r1 r2
         | _, _ => false
         end) xs ys
  | VMapV xs, VMapV ys =>
      (fix go (l1 l2 : list (value * value)) : bool :=
         match l1, l2 with
         | [], [] => true
         | (k, x) :: r1, (j, y) :: r2 => value_eqb k j && value_eqb x y && go r1 r2
         | _, _ => false
         end) xs ys
  | _, _ => false
  end.

Fixpoint assoc {A} (k : string) (l : list (string * A)) : option A :=
  match l with
  | [] => None
  | (k', a) :: r => if String.eqb k k' then Some a else assoc k r
  end.

(* ---- literals ----------------------------------------------------------- *)

Fixpoint parse_digits (s : string) (acc : Z) : option Z :=
  match s with
  | EmptyString => Some acc
  | String c r => if is_digit c then parse_digits r (acc * 10 + Z.of_nat (digit_val c))%Z
                  else if Ascii.eqb c "_" then parse_digits r acc else None
  end.

Definition parse_int (s : string) : option Z :=
  match s with
  | EmptyString => None
  | String c _ => if is_digit c then parse_digits s 0%Z else None
  end.

(* "..." without escapes *)
Fixpoint strip_last_quote (s : string) : option string :=
  match s with
  | EmptyString => None
  | String c EmptyString => if Ascii.eqb c """" then Some EmptyString else None
  | String c r => if Ascii.eqb c "\" then None
                  else match strip_last_quote r with Some t => Some (String c t) | None => None end
  end.
Definition parse_str_lit (s : string) : option string :=
  match s with
  | String c r => if Ascii.eqb c """" then strip_last_quote r else None
  | EmptyString => None
  end.

(* a float literal with an integral value: digits `.0` *)
Fixpoint split_dot (s : string) : option (string * string) :=
  match s with
  | EmptyString => None
  | String c r => if Ascii.eqb c "." then Some (EmptyString, r)
                  else match split_dot r with Some (a, b) => Some (String c a, b) | None => None end
  end.
Definition parse_float (s : string) : option Z :=
  match split_dot s with
  | Some (a, b) => if String.eqb b "0" then parse_int a else None
  | None => None
  end.

Definition lit_value (s : string) : option value :=
  match parse_int s with
  | Some z => Some (VInt z)
  | None => match parse_float s with
            | Some z => Some (VFloat (Some z))
            | None => match parse_str_lit s with Some t => Some (VStr t) | None => None end
            end
  end.

(* the value of an expression written by the user, in the caller's environment:
   a literal, `true`/`false`, a negated integer literal, or a caller variable *)
Definition ueval_toks (caller : list (string * value)) (ts : list tok) : option value :=
  match ts with
  | [TLit s _] => lit_value s
  | [TIdent s _] => if String.eqb s "true" then Some (VBool true)
                    else if String.eqb s "false" then Some (VBool false)
                    else assoc s caller
  | [TPunct c _ _; TLit s _] =>
      if Ascii.eqb c "-" then match parse_int s with
                              | Some z => Some (VInt (- z))
                              | None => match parse_float s with Some z => Some (VFloat (Some (- z)%Z)) | None => None end
                              end
      else if Ascii.eqb c "&" then lit_value s
      else None
  | [TPunct c _ _; TIdent s _] => if Ascii.eqb c "&" then assoc s caller else None
  | _ => None
  end.

Definition ueval (caller : list (string * value)) (u : uexpr) : option value := ueval_toks caller (u_toks u).

(* a user pattern spliced into matches!(v, <pat>): only literal patterns are modelled *)
Definition lit_pat_matches (ts : list tok) (v : value) : option bool :=
  match ueval_toks [] ts with
  | Some (VInt z) => match peel v with VInt w => Some (Z.eqb z w) | _ => None end
  | Some (VBool b) => match peel v with VBool w => Some (Bool.eqb b w) | _ => None end
  | Some (VStr s) => match peel v with VStr w => Some (String.eqb s w) | _ => None end
  | Some (VFloat (Some z)) =>
      match peel v with VFloat w => Some (match w with Some y => Z.eqb z y | None => false end) | _ => None end
  | _ => None
  end.

(* ---- ordering ----------------------------------------------------------- *)

Definition cmp_holds (op : cmp_op) (a b : value) : option bool :=
  match peel a, peel b with
  | VInt x, VInt y =>
      Some (match op with
            | OpLt => Z.ltb x y | OpLe => Z.leb x y | OpGt => Z.ltb y x | OpGe => Z.leb y x
            | OpEq => Z.eqb x y | OpNe => negb (Z.eqb x y)
            end)
  | VFloat x, VFloat y =>
      (* PartialOrd / PartialEq of f64: every comparison with NaN is false, except `!=` *)
      Some (match x, y with
            | Some a, Some b =>
                match op with
                | OpLt => Z.ltb a b | OpLe => Z.leb a b | OpGt => Z.ltb b a | OpGe => Z.leb b a
                | OpEq => Z.eqb a b | OpNe => negb (Z.eqb a b)
                end
            | _, _ => match op with OpNe => true | _ => false end
            end)
  | VStr x, VStr y =>
      match op with
      | OpEq => Some (String.eqb x y)
      | OpNe => Some (negb (String.eqb x y))
      | _ => None
      end
  | VBool x, VBool y =>
      match op with
      | OpEq => Some (Bool.eqb x y)
      | OpNe => Some (negb (Bool.eqb x y))
      | _ => None
      end
  | _, _ => None
  end.

Definition in_range (lo : option Z) (incl : bool) (hi : option Z) (z : Z) : bool :=
  (match lo with Some l => Z.leb l z | None => true end) &&
  (match hi with Some h => if incl then Z.leb z h else Z.ltb z h | None => true end).

(* a bound: absent, an integer literal (false, z) or a float literal (true, z) *)
Definition bound_val (b : option uexpr) : option (option (bool * Z)) :=
  match b with
  | None => Some None
  | Some u => match ueval [] u with
              | Some (VInt z) => Some (Some (false, z))
              | Some (VFloat (Some z)) => Some (Some (true, z))
              | _ => None
              end
  end.
Definition bound_is (fl : bool) (b : option (bool * Z)) : bool :=
  match b with None => true | Some (f, _) => Bool.eqb f fl end.
Definition bound_z (b : option (bool * Z)) : option Z := option_map snd b.

Definition range_holds (parts : option (option uexpr * bool * option uexpr)) (v : value) : option bool :=
  match parts with
  | Some (lo, incl, hi) =>
      match bound_val lo, bound_val hi, peel v with
      | Some l, Some h, VInt z =>
          if bound_is false l && bound_is false h then Some (in_range (bound_z l) incl (bound_z h) z) else None
      | Some l, Some h, VFloat w =>
          if bound_is true l && bound_is true h
          then Some (match w with Some z => in_range (bound_z l) incl (bound_z h) z | None => false end)   (* NaN is in no range *)
          else None
      | _, _, _ => None
      end
  | None => None
  end.

(* ---- a tiny regex class: [^] literal [$] -------------------------------- *)

Fixpoint is_prefix (p s : string) : bool :=
  match p, s with
  | EmptyString, _ => true
  | String a p', String b s' => Ascii.eqb a b && is_prefix p' s'
  | _, _ => false
  end.
Fixpoint contains (p s : string) : bool :=
  is_prefix p s || match s with EmptyString => false | String _ r => contains p r end.
Fixpoint is_suffix_of (p s : string) : bool :=
  String.eqb p s || match s with EmptyString => false | String _ r => is_suffix_of p r end.
Fixpoint all_plain (s : string) : bool :=
  match s with
  | EmptyString => true
  | String c r => (is_ident_start c || is_digit c || Ascii.eqb c " ") && all_plain r
  end.
Fixpoint drop_last (s : string) : string :=
  match s with
  | EmptyString => EmptyString
  | String c EmptyString => EmptyString
  | String c r => String c (drop_last r)
  end.
Fixpoint last_is_dollar (s : string) : bool :=
  match s with
  | EmptyString => false
  | String c EmptyString => Ascii.eqb c "$"
  | String _ r => last_is_dollar r
  end.

Definition regex_match (re s : string) : option bool :=
  let '(anch_l, body) := match re with
                         | String c r => if Ascii.eqb c "^" then (true, r) else (false, re)
                         | EmptyString => (false, re)
                         end in
  let '(anch_r, body) := if last_is_dollar body then (true, drop_last body) else (false, body) in
  if negb (all_plain body) then None
  else Some (match anch_l, anch_r with
             | true, true => String.eqb body s
             | true, false => is_prefix body s
             | false, true => is_suffix_of body s
             | false, false => contains body s
             end).

(* ---- closures: `|x| x OP lit` / `|x| *x OP lit` -------------------------- *)

Definition closure_cmp (c1 : ascii) (joint : bool) (c2 : option ascii) (z : Z) (v : value) : option bool :=
  match c2 with
  | Some d =>
      let op := if Ascii.eqb c1 "<" then Some OpLe else if Ascii.eqb c1 ">" then Some OpGe
                else if Ascii.eqb c1 "=" then Some OpEq else if Ascii.eqb c1 "!" then Some OpNe else None in
      if Ascii.eqb d "=" && joint then match op with Some o => cmp_holds o v (VInt z) | None => None end else None
  | None =>
      if Ascii.eqb c1 "<" then cmp_holds OpLt v (VInt z)
      else if Ascii.eqb c1 ">" then cmp_holds OpGt v (VInt z) else None
  end.

Definition closure_sem (c : uexpr) (v : value) : option bool :=
  let rev_ts := rev (u_toks c) in
  match rev_ts with
  | [TIdent b _; TPunct _ _ _; TIdent _ _; TPunct _ _ _] =>       (* |_x| true / false *)
      if String.eqb b "true" then Some true else if String.eqb b "false" then Some false else None
  | TLit n _ :: TPunct m _ _ :: TPunct c2 false _ :: TPunct c1 true _ :: _ =>   (* x OP= -n *)
      match parse_int n with
      | Some z => if Ascii.eqb m "-" then closure_cmp c1 true (Some c2) (- z) v else None
      | None => None
      end
  | TLit n _ :: TPunct c2 false _ :: TPunct c1 true _ :: _ =>       (* x OP= n *)
      match parse_int n with Some z => closure_cmp c1 true (Some c2) z v | None => None end
  | TLit n _ :: TPunct m false _ :: TPunct c1 false _ :: _ =>       (* x OP -n *)
      match parse_int n with
      | Some z => if Ascii.eqb m "-" then closure_cmp c1 false None (- z) v else None
      | None => None
      end
  | TLit n _ :: TPunct c1 false _ :: _ =>                            (* x OP n *)
      match parse_int n with Some z => closure_cmp c1 false None z v | None => None end
  | _ => None
  end.

(* ---- Debug rendering (used when comparing with real reports) ------------- *)

Definition Z_to_string (z : Z) : string :=
  match z with
  | Z0 => "0"
  | Zpos p => N_to_string (Npos p)
  | Zneg p => "-" ++ N_to_string (Npos p)
  end.

Fixpoint join_with (sep : string) (l : list string) : string :=
  match l with
  | [] => ""
  | [x] => x
  | x :: r => x ++ sep ++ join_with sep r
  end.

Fixpoint debug (v : value) : string :=
  match v with
  | VInt z => Z_to_string z
  | VBool b => if b then "true" else "false"
  | VStr s => """" ++ escape_str s ++ """"
  | VUnit => "()"
  | VFloat f => match f with Some z => Z_to_string z ++ ".0" | None => "NaN" end
  | VRefV w | VBoxV w => debug w
  | VTupleV vs =>
      match vs with
      | [x] => "(" ++ debug x ++ ",)"
      | _ => "(" ++ join_with ", " (map debug vs) ++ ")"
      end
  | VStructV name fs =>
      match fs with
      | [] => name
      | _ => name ++ " { " ++ join_with ", " (map (fun fv => fst fv ++ ": " ++ debug (snd fv)) fs) ++ " }"
      end
  | VVariantV name args =>
      match args with
      | [] => name
      | _ => name ++ "(" ++ join_with ", " (map debug args) ++ ")"
      end
  | VVecV vs => "[" ++ join_with ", " (map debug vs) ++ "]"
  | VViewV name vs => name ++ "([" ++ join_with ", " (map debug vs) ++ "])"
  | VMapV kvs => "{" ++ join_with ", " (map (fun kv => debug (fst kv) ++ ": " ++ debug (snd kv)) kvs) ++ "}"
  end.

(* ---- report entries ------------------------------------------------------ *)

Inductive atext :=
| TDebug (v : value)          (* format!("{:?}", v) *)
| TMapLen (n : nat)           (* "map with {n} entries" *)
| TMissingKey                 (* "missing key" *)
| TSetLen (n : nat).          (* "{n} element(s)" *)

Record entry := { en_node : N; en_actual : atext; en_expected : option string }.


(* ---- access paths -------------------------------------------------------- *)

Definition field_of (v : value) (f : string) : option value :=
  match auto_deref v with
  | VStructV _ fs => assoc f fs
  | _ => None
  end.

Definition elem_of (v : value) (i : N) : option value :=
  match auto_deref v with
  | VTupleV vs | VVariantV _ vs => nth_error vs (N.to_nat i)
  | _ => None
  end.

(* the methods the modelled programs call *)
Definition method_sem (m : string) (recv : value) (args : list value) : option value :=
  match args with
  | [] =>
      match auto_deref recv with
      | VVecV vs => if String.eqb m "len" then Some (VInt (Z.of_nat (List.length vs)))
                    else if String.eqb m "is_empty" then Some (VBool (Nat.eqb (List.length vs) 0))
                    else if String.eqb m "clone" then Some (VVecV vs)
                    else if String.eqb m "iter" then Some (VViewV "Iter" vs) else None
      | VMapV kvs => if String.eqb m "len" then Some (VInt (Z.of_nat (List.length kvs)))
                     else if String.eqb m "is_empty" then Some (VBool (Nat.eqb (List.length kvs) 0)) else None
      | VStr s => if String.eqb m "len" then Some (VInt (Z.of_nat (String.length s)))
                  else if String.eqb m "is_empty" then Some (VBool (Nat.eqb (String.length s) 0))
                  else if String.eqb m "clone" || String.eqb m "to_string" || String.eqb m "as_str" then Some (VStr s)
                  else None
      | VVariantV n a =>
          if String.eqb m "is_some" then Some (VBool (String.eqb n "Some"))
          else if String.eqb m "is_none" then Some (VBool (String.eqb n "None"))
          else if String.eqb m "is_ok" then Some (VBool (String.eqb n "Ok"))
          else if String.eqb m "is_err" then Some (VBool (String.eqb n "Err"))
          else if String.eqb m "clone" then Some (VVariantV n a) else None
      | VInt z => if String.eqb m "clone" || String.eqb m "bump" then Some (VInt z) else None
      | w => if String.eqb m "clone" then Some w else None
      end
  | _ => None
  end.

Fixpoint all_some {A} (l : list (option A)) : option (list A) :=
  match l with
  | [] => Some []
  | Some a :: r => match all_some r with Some t => Some (a :: t) | None => None end
  | None :: _ => None
  end.

(* the last segment of a path: what decides which variant / struct a pattern names *)
Fixpoint last_ident (ts : list tok) (acc : option string) : option string :=
  match ts with
  | [] => acc
  | TIdent s _ :: r => last_ident r (Some s)
  | _ :: r => last_ident r acc
  end.
Definition path_last (p : rpath) : option string := last_ident (p_toks p) None.
Definition path_single (p : rpath) : bool := match p_toks p with [TIdent _ _] => true | _ => false end.

Fixpoint map_get (k : value) (kvs : list (value * value)) : option value :=
  match kvs with
  | [] => None
  | (k', v) :: r => if value_eqb (peel k) (peel k') then Some v else map_get k r
  end.

Definition elements_of (v : value) : option (list value) :=
  match auto_deref v with VVecV vs | VViewV _ vs => Some vs | _ => None end.

