(* SharedT.v — the source cache of Shared.v when the READABILITY of the files changes while the process runs: a source file is moved
   away while an editor, a formatter or a checkout rewrites it, a descriptor limit is hit, the file comes back.  Whenever a file can be
   read its text is the same (the text the test was compiled from); what varies with time is only whether read_to_string succeeds. *)
From ASModel Require Import Base Shared.
Local Open Scope string_scope.

Section TimedCache.
  Variable content : string -> string.          (* the text of each source file, whenever it can be read *)
  Variable readable : nat -> string -> bool.    (* can path p be read at time t? *)

  Definition fs_at (t : nat) (p : string) : option string := if readable t p then Some (content p) else None.

  (* step number k of a run that starts at time t happens at time t + k *)
  Fixpoint run_from (t : nat) (st : cache * list call) (schedule : list nat) : cache * list call :=
    match schedule with
    | [] => st
    | i :: r => run_from (S t) (step (fs_at t) st i) r
    end.

  (* one failure reported alone, from start to finish, beginning at time t: the three steps of cached_source *)
  Definition report_at (t : nat) (c : cache) (p : string) : cache * option string :=
    let '(c1, k1) := step_call (fs_at t) c {| c_path := p; c_pc := PStart |} in
    let '(c2, k2) := step_call (fs_at (S t)) c1 k1 in
    let '(c3, k3) := step_call (fs_at (S (S t))) c2 k2 in
    (c3, match c_pc k3 with PDone r => r | _ => None end).

  (* a history of one thread: at each moment the file system is what `readable` says; `ops` lists the paths reported, one after the
     other, each taking three time steps *)
  Fixpoint reports_from (t : nat) (c : cache) (ops : list string) : list (option string) :=
    match ops with
    | [] => []
    | p :: r => let '(c', res) := report_at t c p in res :: reports_from (3 + t) c' r
    end.
End TimedCache.
