(* PathRes.v — model of absolute_source_path (assert-struct/src/error.rs) on Unix
   paths.  std::path's component splitting and PathBuf::push are modelled by the
   executable definitions below (trusted; compared with the real ones on every run). *)
From ASModel Require Import Base.
Local Open Scope string_scope.

Inductive comp := CRoot | CCur | CParent | CNormal (s : string).

Definition comp_eqb (a b : comp) : bool :=
  match a, b with
  | CRoot, CRoot | CCur, CCur | CParent, CParent => true
  | CNormal s, CNormal t => String.eqb s t
  | _, _ => false
  end.

Definition slash : ascii := "/"%char.

Definition is_absolute (s : string) : bool :=
  match s with String c _ => Ascii.eqb c slash | EmptyString => false end.

Definition normal_comps (segs : list string) : list comp :=
  flat_map (fun seg =>
    if String.eqb seg "" then [] else if String.eqb seg "." then []
    else if String.eqb seg ".." then [CParent] else [CNormal seg]) segs.

(* Path::components() *)
Definition components (s : string) : list comp :=
  let segs := split_on slash s in
  if is_absolute s then CRoot :: normal_comps segs
  else match segs with
       | seg :: rest => if String.eqb seg "." then CCur :: normal_comps rest else normal_comps segs
       | [] => []
       end.

Definition comp_str (c : comp) : string :=
  match c with CRoot => "/" | CCur => "." | CParent => ".." | CNormal s => s end.

Fixpoint last_char (s : string) : option ascii :=
  match s with
  | EmptyString => None
  | String c EmptyString => Some c
  | String _ r => last_char r
  end.

(* PathBuf::push *)
Definition push (buf p : string) : string :=
  if is_absolute p then p
  else match last_char buf with
       | None => p
       | Some c => if Ascii.eqb c slash then buf ++ p else buf ++ "/" ++ p
       end.

(* components.iter().collect::<PathBuf>() *)
Definition render (cs : list comp) : string := fold_left (fun buf c => push buf (comp_str c)) cs "".

(* does the suffix of m of length len equal the prefix of f of length len? *)
Definition overlap_at (m f : list comp) (len : nat) : bool :=
  list_eqb comp_eqb (skipn (List.length m - len) m) (firstn len f).

(* every len in 1..=min(|m|,|f|) whose suffix/prefix agree, in increasing order *)
Definition overlaps (m f : list comp) : list nat :=
  filter (overlap_at m f) (seq 1 (Nat.min (List.length m) (List.length f))).

Definition resolve_with (m : list comp) (file : string) (overlap : nat) : string :=
  push (render (firstn (List.length m - overlap) m)) file.

(* the code as it was before the repair: longest overlap, disk never consulted *)
Definition absolute_source_path_old (manifest_dir file : string) : string :=
  let m := components manifest_dir in
  let f := components file in
  resolve_with m file (last (overlaps m f) 0).

Section WithFs.
  (* Path::is_file — the file system is an oracle; the harness instantiates it
     with the set of files it created. *)
  Variable is_file : string -> bool.

  (* the code as it is: candidates longest first, then no overlap; the first
     that exists wins; otherwise the longest overlap as before *)
  Definition absolute_source_path (manifest_dir file : string) : string :=
    let m := components manifest_dir in
    let f := components file in
    let ovs := overlaps m f in
    match find is_file (map (resolve_with m file) (rev ovs ++ [0])) with
    | Some p => p
    | None => resolve_with m file (last ovs 0)
    end.
End WithFs.
