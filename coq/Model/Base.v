(* Base.v — shared helpers for the assert-struct model.  No proofs of properties here. *)
From Coq Require Export String Ascii.
From Coq Require Export NArith ZArith Bool Lia List.
From Coq Require Import DecimalString.
Export ListNotations.
Open Scope list_scope.
Open Scope bool_scope.

(* Decimal rendering of a natural number, as Rust's `{}` prints a usize/u32. *)
Definition N_to_string (n : N) : string := NilEmpty.string_of_uint (N.to_uint n).
Definition nat_to_string (n : nat) : string := N_to_string (N.of_nat n).

(* firstn / nth / skipn with a binary counter: recursion is on the list, so that
   data-sized numbers (u32 line and column values) are never converted to nat. *)
Section ListN.
  Context {A : Type}.
  Fixpoint firstnN (n : N) (l : list A) : list A :=
    match l with
    | [] => []
    | x :: r => if N.eqb n 0 then [] else x :: firstnN (N.pred n) r
    end.
  Fixpoint skipnN (n : N) (l : list A) : list A :=
    match l with
    | [] => []
    | x :: r => if N.eqb n 0 then l else skipnN (N.pred n) r
    end.
  Fixpoint nthN (n : N) (l : list A) (d : A) : A :=
    match l with
    | [] => d
    | x :: r => if N.eqb n 0 then x else nthN (N.pred n) r d
    end.
  Definition lengthN (l : list A) : N := N.of_nat (List.length l).
End ListN.

Fixpoint sumN (l : list N) : N :=
  match l with [] => 0%N | x :: r => (x + sumN r)%N end.

(* string helpers *)
Fixpoint string_concat (l : list string) : string :=
  match l with [] => EmptyString | s :: r => String.append s (string_concat r) end.

Fixpoint string_repeat (s : string) (n : nat) : string :=
  match n with O => EmptyString | S k => String.append s (string_repeat s k) end.

Fixpoint list_eqb {A} (eqb : A -> A -> bool) (l1 l2 : list A) : bool :=
  match l1, l2 with
  | [], [] => true
  | x :: r1, y :: r2 => eqb x y && list_eqb eqb r1 r2
  | _, _ => false
  end.

Section Mapi.
  Context {A B : Type} (f : nat -> A -> B).
  Fixpoint mapi_from (i : nat) (l : list A) : list B :=
    match l with [] => [] | x :: r => f i x :: mapi_from (S i) r end.
  Definition mapi (l : list A) : list B := mapi_from 0 l.
End Mapi.

Fixpoint split_on (sep : ascii) (s : string) : list string :=
  match s with
  | EmptyString => [EmptyString]
  | String c r =>
      if Ascii.eqb c sep then EmptyString :: split_on sep r
      else match split_on sep r with
           | l :: ls => String c l :: ls
           | [] => [String c EmptyString]
           end
  end.

