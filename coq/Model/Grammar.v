(* Grammar.v — the documented pattern grammar as a declarative relation over token lists (C15).
   `G_pat pre rest p`: the tokens `pre`, when followed by `rest`, are the pattern p.  The relation is
   over the WHOLE list `pre`: every token of pre belongs to exactly one constituent of the derivation,
   so "no token of an accepted pattern is dropped" is built into the relation.  Expressions, paths and
   closures are whatever syn's parsers (the Section variables) make of the tokens; field-operation
   chains are whatever FieldOperation::parse makes of them (they are not part of any C15 claim). *)
From ASModel Require Import Base Tokens Report Ast Parser.
Local Open Scope string_scope.
Local Open Scope list_scope.

(* the tokens of one punctuation token *)
Definition is_punct (s : string) (l : list ttree) : Prop :=
  peek_punct s l = true /\ List.length l = String.length s.

Section Grammar.
  Variable regex : bool.
  Variable parse_expr : list ttree -> ores expr_ok.
  Variable parse_path : list ttree -> ores path_ok.
  Variable parse_closure : list ttree -> ores closure_ok.

  (* `pre` is what syn's expression parser takes from pre ++ rest *)
  Definition G_expr (pre rest : list ttree) (r : expr_ok) : Prop :=
    parse_expr (pre ++ rest) = OOk r /\ pre = firstn (eo_n r) (pre ++ rest) /\ rest = skipn (eo_n r) (pre ++ rest).
  Definition G_path (pre rest : list ttree) (p : rpath) : Prop :=
    exists r, parse_path (pre ++ rest) = OOk r /\ po_p r = p /\
              pre = firstn (po_n r) (pre ++ rest) /\ rest = skipn (po_n r) (pre ++ rest).
  Definition G_closure (pre rest : list ttree) (c : closure_ok) : Prop :=
    parse_closure (pre ++ rest) = OOk c /\ pre = firstn (co_n c) (pre ++ rest) /\ rest = skipn (co_n c) (pre ++ rest).
  (* a field-operation chain: what FieldOperation::parse takes *)
  Definition G_fop (pre rest : list ttree) (o : fop) : Prop :=
    exists f sc st st', toks st = pre ++ rest /\ p_field_operation parse_expr f sc st = POk o st' /\ toks st' = rest.

  Definition is_cmp (l : list ttree) (o : cmp_op) : Prop :=
    match o with
    | OpLt => is_punct "<" l | OpLe => is_punct "<=" l | OpGt => is_punct ">" l
    | OpGe => is_punct ">=" l | OpEq => is_punct "==" l | OpNe => is_punct "!=" l
    end.

  Inductive G_pat : list ttree -> list ttree -> pat -> Prop :=
  | G_closure_pat pre rest c id :
      G_closure pre rest c -> co_inputs c = 1 -> G_pat pre rest (PClosure id (co_u c))
  | G_wild sp rest id : G_pat [TTIdent "_" sp] rest (PWild id)
  | G_wstruct sp a b c body rest id fields :
      G_fields body fields true ->
      G_pat [TTIdent "_" sp; TTGroup DBrace a b c body] rest (PStruct id None true fields)
  | G_cmp optoks etoks rest op osp r id :
      is_cmp optoks op -> G_expr etoks rest r -> G_pat (optoks ++ etoks) rest (PCmp id op osp (eo_u r))
  | G_like eq tilde etoks rest r id :
      regex = true -> is_punct "=" eq -> is_punct "~" tilde -> G_expr etoks rest r -> eo_str r = None ->
      G_pat (eq ++ tilde ++ etoks) rest (PLike id (eo_u r))
  | G_regex eq tilde etoks rest r v id :
      regex = true -> is_punct "=" eq -> is_punct "~" tilde -> G_expr etoks rest r -> eo_str r = Some v ->
      G_pat (eq ++ tilde ++ etoks) rest (PRegex id v (u_span (eo_u r)))
  | G_set_pat hash a b c body rest id sp elems r :
      is_punct "#" hash -> G_set body elems r ->
      G_pat (hash ++ [TTGroup DParen a b c body]) rest (PSet id sp r elems)
  | G_map_pat hash a b c body rest id sp entries r :
      is_punct "#" hash -> G_map body entries r ->
      G_pat (hash ++ [TTGroup DBrace a b c body]) rest (PMap id sp r entries)
  | G_slice_pat a b c body rest id sp elems :
      G_list body elems -> G_pat [TTGroup DBracket a b c body] rest (PSlice id sp elems)
  | G_tuple_pat a b c body rest id sp elems :
      G_elems 0%N body elems -> G_pat [TTGroup DParen a b c body] rest (PTuple id sp elems)
  | G_struct_pat ptoks a b c body rest id path fields r :
      G_path ptoks (TTGroup DBrace a b c body :: rest) path -> G_fields body fields r ->
      G_pat (ptoks ++ [TTGroup DBrace a b c body]) rest (PStruct id (Some path) r fields)
  | G_unit_pat ptoks rest id path :
      G_path ptoks rest path -> G_pat ptoks rest (PEnum id path [])
  | G_variant_pat ptoks a b c body rest id path elems :
      G_path ptoks (TTGroup DParen a b c body :: rest) path -> G_elems 0%N body elems ->
      G_pat (ptoks ++ [TTGroup DParen a b c body]) rest (PEnum id path elems)
  | G_range etoks rest r parts id :
      G_expr etoks rest r -> eo_range r = Some parts -> G_pat etoks rest (PRange id (eo_u r) (Some parts))
  | G_string v text sp rest id : G_pat [TTLit (LStr v) text sp] rest (PString id text sp v)
  | G_simple etoks rest r id :
      G_expr etoks rest r -> G_pat etoks rest (PSimple id (eo_u r))

  (* the content of `Path { .. }` / `_ { .. }`: field assertions separated by commas, an optional
     trailing comma, and `..` ONLY as the last item *)
  with G_fields : list ttree -> list (fop * pat) -> bool -> Prop :=
  | GF_nil : G_fields [] [] false
  | GF_rest dd : is_punct ".." dd -> G_fields dd [] true
  | GF_last otoks colon ptoks ops p :
      G_fop otoks (colon ++ ptoks) ops -> is_punct ":" colon -> G_pat ptoks [] p ->
      G_fields (otoks ++ colon ++ ptoks) [(ops, p)] false
  | GF_cons otoks colon ptoks comma more ops p fs r :
      G_fop otoks (colon ++ ptoks ++ comma ++ more) ops -> is_punct ":" colon ->
      G_pat ptoks (comma ++ more) p -> is_punct "," comma -> G_fields more fs r ->
      G_fields (otoks ++ colon ++ ptoks ++ comma ++ more) ((ops, p) :: fs) r

  (* the content of a tuple / variant pattern: positional patterns or `ops: pattern` whose root is the
     element's own position *)
  with G_elems : N -> list ttree -> list (option fop * pat) -> Prop :=
  | GE_nil pos : G_elems pos [] []
  | GE_last pos etoks el : G_elem pos etoks [] el -> G_elems pos etoks [el]
  | GE_cons pos etoks comma more el els :
      G_elem pos etoks (comma ++ more) el -> is_punct "," comma -> G_elems (N.succ pos) more els ->
      G_elems pos (etoks ++ comma ++ more) (el :: els)
  with G_elem : N -> list ttree -> list ttree -> option fop * pat -> Prop :=
  | GEl_pos pos pre rest p : G_pat pre rest p -> G_elem pos pre rest (None, p)
  | GEl_idx pos otoks colon ptoks rest ops p isp :
      G_fop otoks (colon ++ ptoks ++ rest) ops -> root_field_name ops = Some (FIndex pos isp) ->
      is_punct ":" colon -> G_pat ptoks rest p ->
      G_elem pos (otoks ++ colon ++ ptoks) rest (Some ops, p)

  (* the content of a slice pattern: patterns separated by commas (a lone `..` is the pattern "no bounds") *)
  with G_list : list ttree -> list pat -> Prop :=
  | GL_nil : G_list [] []
  | GL_last ptoks p : G_pat ptoks [] p -> G_list ptoks [p]
  | GL_cons ptoks comma more p ps :
      G_pat ptoks (comma ++ more) p -> is_punct "," comma -> G_list more ps ->
      G_list (ptoks ++ comma ++ more) (p :: ps)

  (* the content of a set pattern: `..` only as the last item (one comma may follow when it is also the first) *)
  with G_set : list ttree -> list pat -> bool -> Prop :=
  | GS_nil : G_set [] [] false
  | GS_rest dd : is_punct ".." dd -> G_set dd [] true
  | GS_rest_comma dd comma : is_punct ".." dd -> is_punct "," comma -> G_set (dd ++ comma) [] true
  | GS_last ptoks p : G_pat ptoks [] p -> G_set ptoks [p] false
  | GS_cons ptoks comma more p ps r :
      G_pat ptoks (comma ++ more) p -> is_punct "," comma -> G_setn more ps r ->
      G_set (ptoks ++ comma ++ more) (p :: ps) r
  (* ... what may follow a comma inside a set pattern *)
  with G_setn : list ttree -> list pat -> bool -> Prop :=
  | GN_nil : G_setn [] [] false
  | GN_rest dd : is_punct ".." dd -> G_setn dd [] true
  | GN_last ptoks p : G_pat ptoks [] p -> G_setn ptoks [p] false
  | GN_cons ptoks comma more p ps r :
      G_pat ptoks (comma ++ more) p -> is_punct "," comma -> G_setn more ps r ->
      G_setn (ptoks ++ comma ++ more) (p :: ps) r

  (* the content of a map pattern *)
  with G_map : list ttree -> list (uexpr * pat) -> bool -> Prop :=
  | GM_nil : G_map [] [] false
  | GM_rest dd : is_punct ".." dd -> G_map dd [] true
  | GM_last ktoks colon ptoks k p :
      G_expr ktoks (colon ++ ptoks) k -> is_punct ":" colon -> G_pat ptoks [] p ->
      G_map (ktoks ++ colon ++ ptoks) [(eo_u k, p)] false
  | GM_cons ktoks colon ptoks comma more k p es r :
      G_expr ktoks (colon ++ ptoks ++ comma ++ more) k -> is_punct ":" colon ->
      G_pat ptoks (comma ++ more) p -> is_punct "," comma -> G_map more es r ->
      G_map (ktoks ++ colon ++ ptoks ++ comma ++ more) ((eo_u k, p) :: es) r.

  (* the whole invocation: expression `,` pattern, nothing after *)
  Definition G_top (ts : list ttree) (v : uexpr) (p : pat) : Prop :=
    exists vtoks comma ptoks r,
      ts = vtoks ++ comma ++ ptoks /\ G_expr vtoks (comma ++ ptoks) r /\ eo_u r = v /\ is_punct "," comma /\ G_pat ptoks [] p.
End Grammar.
