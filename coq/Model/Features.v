(* Features.v — the `regex` cargo feature: how the two crates' feature tables and the
   dependency edge between them determine what the macro crate and the runtime crate are
   compiled with, which runtime items each generated template refers to, and which of
   those items exist in each configuration.  The concrete tables are regenerated from
   /repo's Cargo.toml files on every run (gen/RepoFacts.v). *)
From ASModel Require Import Base Tokens Report Ast IR.
Local Open Scope string_scope.

(* the [features] table of a crate: feature -> what it enables *)
Definition ftable := list (string * list string).

Record wiring := {
  w_runtime : ftable;              (* assert-struct/Cargo.toml [features] *)
  w_macros : ftable;               (* assert-struct-macros/Cargo.toml [features] *)
  w_edge_default : bool;           (* the dependency assert-struct -> assert-struct-macros keeps default features *)
  w_edge_features : list string;   (* features = [..] on that edge *)
}.

Fixpoint assoc_feat (f : string) (t : ftable) : list string :=
  match t with
  | [] => []
  | (g, l) :: r => if String.eqb f g then l else assoc_feat f r
  end.

Definition mem (s : string) (l : list string) : bool := existsb (String.eqb s) l.

(* cargo's feature resolution within one crate: close the requested set under the table
   (entries such as "dep:regex" or "other-crate/feat" are kept and enable nothing here) *)
Fixpoint close (fuel : nat) (t : ftable) (have : list string) : list string :=
  match fuel with
  | O => have
  | S k =>
      let next := flat_map (fun f => assoc_feat f t) have in
      let fresh := filter (fun f => negb (mem f have)) next in
      match fresh with
      | [] => have
      | _ => close k t (have ++ fresh)
      end
  end.

Definition total_size (t : ftable) : nat := fold_right (fun e n => S (List.length (snd e) + n)) 0 t.

Definition resolve (t : ftable) (requested : list string) : list string :=
  close (S (total_size t)) t requested.

(* what a dependent crate can select for assert-struct *)
Inductive config := DefaultOn | DefaultOff.

Definition runtime_enabled (w : wiring) (c : config) : list string :=
  resolve (w_runtime w) (match c with DefaultOn => ["default"] | DefaultOff => [] end).

Definition runtime_regex (w : wiring) (c : config) : bool := mem "regex" (runtime_enabled w c).

(* "assert-struct-macros/<f>" entries enabled in the runtime crate request <f> of the macro crate *)
Definition strip_prefix (p s : string) : option string :=
  if String.prefix p s then Some (String.substring (String.length p) (String.length s - String.length p) s) else None.

Definition forwarded (w : wiring) (c : config) : list string :=
  flat_map (fun f => match strip_prefix "assert-struct-macros/" f with Some g => [g] | None => [] end)
           (runtime_enabled w c).

Definition macros_enabled (w : wiring) (c : config) : list string :=
  resolve (w_macros w)
          ((if w_edge_default w then ["default"] else []) ++ w_edge_features w ++ forwarded w c).

Definition macro_regex (w : wiring) (c : config) : bool := mem "regex" (macros_enabled w c).

(* ---- the one place where the parser consults the feature: `=` followed by ... ---- *)

Inductive eq_dispatch := DComparison | DLike | DErr.

(* pattern.rs: `=` then `=` -> comparison; `=` then `~` -> Like/regex when the macro crate has
   the feature; anything else -> "expected `==` or `=~` pattern" *)
Definition dispatch_eq (regex : bool) (second : option ascii) : eq_dispatch :=
  match second with
  | Some c => if Ascii.eqb c "=" then DComparison
              else if Ascii.eqb c "~" then (if regex then DLike else DErr)
              else DErr
  | None => DErr
  end.

(* ---- runtime items the generated code refers to ------------------------------------ *)

Inductive rt_item :=
| IErrorReport | IPatternNode | IClosureCheck | ISetMatch | ILikeTrait
| IRegexType            (* __macro_support::Regex *)
| IStrRegexLikeImpl.    (* impl Like<Regex> for String / &str, and the other string impls in like_impls *)

Definition rt_item_eqb (a b : rt_item) : bool :=
  match a, b with
  | IErrorReport, IErrorReport | IPatternNode, IPatternNode | IClosureCheck, IClosureCheck
  | ISetMatch, ISetMatch | ILikeTrait, ILikeTrait | IRegexType, IRegexType
  | IStrRegexLikeImpl, IStrRegexLikeImpl => true
  | _, _ => false
  end.

(* which items exist: the two gated ones need the runtime crate's `regex` feature *)
Definition available (runtime_has_regex : bool) (i : rt_item) : bool :=
  match i with
  | IRegexType | IStrRegexLikeImpl => runtime_has_regex
  | _ => true
  end.

Fixpoint stmt_refs (s : stmt) : list rt_item :=
  match s with
  | SNop | SPanic _ => []
  | SSimple _ _ _ _ | SString _ _ _ _ _ | SCmp _ _ _ _ _ | SUnit _ _ _ _ | SRange _ _ _ _ _ | SMapLen _ _ _ _ => []
  | SRegex _ _ _ _ => [ILikeTrait; IRegexType; IStrRegexLikeImpl]
  | SLike _ _ _ _ => [ILikeTrait]           (* plus whichever impl the operand's type selects: the caller's, or a built-in string one *)
  | SClosure _ _ _ _ => [IClosureCheck]
  | SVariant _ _ _ _ body _ => flat_map stmt_refs body
  | SStruct _ _ _ _ _ body _ => flat_map stmt_refs body
  | SSeq body => flat_map stmt_refs body
  | STuple _ _ body => flat_map stmt_refs body
  | SSlice _ _ body _ => flat_map stmt_refs body
  | SMapGet _ _ _ body _ => stmt_refs body
  | SSet _ preds _ _ => IErrorReport :: ISetMatch :: flat_map stmt_refs preds
  end.

(* the whole expansion also declares the node table and the report *)
Definition top_refs (s : stmt) : list rt_item := IPatternNode :: IErrorReport :: stmt_refs s.

(* does the written pattern contain a regex literal / a Like pattern anywhere? *)
Fixpoint has_regex (p : pat) : bool :=
  match p with
  | PRegex _ _ _ => true
  | PSimple _ _ | PString _ _ _ _ | PCmp _ _ _ _ | PRange _ _ _ | PLike _ _ | PWild _ | PClosure _ _ => false
  | PStruct _ _ _ fields => existsb (fun fp => has_regex (snd fp)) fields
  | PEnum _ _ elems => existsb (fun el => has_regex (snd el)) elems
  | PTuple _ _ elems => existsb (fun el => has_regex (snd el)) elems
  | PSlice _ _ elems => existsb has_regex elems
  | PSet _ _ _ elems => existsb has_regex elems
  | PMap _ _ _ entries => existsb (fun kv => has_regex (snd kv)) entries
  end.

Definition compiles_in (runtime_has_regex : bool) (s : stmt) : bool := forallb (available runtime_has_regex) (top_refs s).
