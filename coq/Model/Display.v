(* Display.v — `impl Display for ErrorReport` (assert-struct/src/error.rs) as one function of
   (renderer choice, displayed path, source file content or None, recorded entries): what is
   handed to the snippet renderer, or the fallback text.  The renderer itself
   (annotate-snippets) is outside the model. *)
From ASModel Require Import Base SrcLoc Report.
Local Open Scope N_scope.

(* an entry with the range its node recorded *)
Record rentry := { re_entry : fentry; re_col_start : N; re_line_end : N; re_col_end : N }.

(* AnnotationKind::Primary.span(start..end).label(label) *)
Record annotation := { an_start : N; an_end : N; an_label : string }.

Definition annotation_of (src : text) (e : rentry) : annotation :=
  let '(s, t) := span_of src (e_line_start (re_entry e)) (re_col_start e) (re_line_end e) (re_col_end e) in
  {| an_start := s; an_end := t; an_label := entry_label (re_entry e) |}.

Inductive rendered :=
| RNothing                                              (* no entries: fmt writes nothing *)
| RSnippet (styled : bool) (rel_path : string) (source : text) (anns : list annotation)
      (* renderer.render(Level::ERROR.primary_title("assert_struct! failed")
                          .element(Snippet::source(source).line_start(1).path(rel_path).annotations(anns))) *)
| RFallback (text : string).

Definition display (styled : bool) (rel_path : string) (source : option text) (errors : list rentry) : rendered :=
  match errors with
  | [] => RNothing
  | _ =>
      match source with
      | Some src => RSnippet styled rel_path src (map (annotation_of src) errors)
      | None => RFallback (fallback_display rel_path (map re_entry errors))
      end
  end.
