(* Shape.v — what rustc demands of the native patterns the expansion destructures with
   (the rustc abstraction behind C12).  These two rules are definitional models of the
   compiler's checks E0026 / E0027 (struct patterns) and E0023 / E0308 (tuple and tuple-struct
   patterns); they are compared with the real rustc on every run (tools/prop_c12.py). *)
From ASModel Require Import Base Tokens Report Ast IR Expand.

Definition smem (s : string) (l : list string) : bool := existsb (String.eqb s) l.

(* `P { n1: _, n2: _, [..] }` against a struct or struct variant declaring `decl`:
   every listed field must exist (E0026) and, without `..`, every declared field must be listed (E0027) *)
Definition struct_pat_ok (decl names : list string) (rest : bool) : bool :=
  forallb (fun n => smem n decl) names && (rest || forallb (fun d => smem d names) decl).

(* `P(p1, .., pn)` with no `..` inside against a variant / tuple struct of `arity` fields (E0023) *)
Definition variant_pat_ok (arity : nat) (sub_patterns : nat) : bool := Nat.eqb arity sub_patterns.
(* `(p1, .., pn)` against a tuple of `arity` fields (E0308) *)
Definition tuple_pat_ok (arity : nat) (sub_patterns : nat) : bool := Nat.eqb arity sub_patterns.

(* How Rust reads what stands between the parentheses of `( ... )` in pattern position, for items that are single tokens
   (the bindings `__tuple_elem_i` and `_` the expansion writes there): nothing is the unit pattern; ONE item WITHOUT a trailing
   comma is a parenthesised pattern, not a tuple pattern (it imposes no shape at all: `let (x) = v;`); anything else is a
   tuple pattern with one sub-pattern per item.  [tuple_items] returns the number of items and whether the last one is followed
   by a comma; None = not a well-formed item list. *)
Definition is_comma (t : tok) : bool := match t with TPunct c _ _ => Ascii.eqb c "," | _ => false end.
Fixpoint tuple_items (ts : list tok) : option (nat * bool) :=
  match ts with
  | [] => Some (0, true)
  | x :: r =>
      if is_comma x then None
      else match r with
           | [] => Some (1, false)
           | c :: r' =>
               if is_comma c
               then match tuple_items r' with
                    | Some (n, tr) => Some (S n, match r' with [] => true | _ => tr end)
                    | None => None
                    end
               else None
           end
  end.
Definition rust_tuple_arity (ts : list tok) : option nat :=
  match tuple_items ts with
  | Some (1, false) => None
  | Some (n, _) => Some n
  | None => None
  end.

(* the field names / rest flag / positional arity of the native pattern a statement destructures with *)
Definition lowered_struct (s : stmt) : option (list string * bool) :=
  match s with
  | SStruct _ _ _ fields rest _ _ => Some (map field_name_str fields, rest)
  | _ => None
  end.
Definition lowered_arity (s : stmt) : option nat :=
  match s with
  | STuple _ binders _ => Some (List.length binders)
  | SVariant _ _ _ binders _ _ => Some (List.length binders)
  | _ => None
  end.

(* the root field names written in a struct pattern, in order *)
Definition written_roots (fields : list (fop * pat)) : list string :=
  flat_map (fun fp => match root_field_name (fst fp) with Some f => [field_name_str f] | None => [] end) fields.
