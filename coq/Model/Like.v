(* Like.v — the built-in Like impls of assert-struct/src/lib.rs (mod like_impls) and check_closure_condition, over an abstract
   regex engine: `compile p` is regex::Regex::new(p) (None = the pattern does not compile), `is_match r s` is Regex::is_match. *)
From ASModel Require Import Base.

Section Like.
  Variable regex : Type.
  Variable compile : string -> option regex.
  Variable is_match : regex -> string -> bool.

  (* impl Like<&str> for String / for &str: Regex::new(pattern).map(|re| re.is_match(self)).unwrap_or(false) *)
  Definition like_str (self pattern : string) : bool :=
    match compile pattern with Some re => is_match re self | None => false end.
  (* impl Like<String> for String / for &str: self.like(&pattern.as_str()) *)
  Definition like_string (self pattern : string) : bool := like_str self pattern.
  (* impl Like<Regex> for String / for &str: pattern.is_match(self) *)
  Definition like_regex (self : string) (pattern : regex) : bool := is_match pattern self.

  (* the six impls in the order String~&str, String~String, &str~&str, &str~String, String~Regex, &str~Regex; the last two exist
     only for a pattern that compiled *)
  Definition like_all (self pattern : string) : list bool :=
    [like_str self pattern; like_string self pattern; like_str self pattern; like_string self pattern] ++
    match compile pattern with Some re => [like_regex self re; like_regex self re] | None => [] end.

  (* check_closure_condition(value, predicate) = predicate(value) *)
  Definition check_closure_condition {T} (value : T) (predicate : T -> bool) : bool := predicate value.
End Like.
