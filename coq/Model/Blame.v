(* Blame.v — which source spans the tokens of a generated statement carry (C20).
   rustc reports a type error on the token it cannot type; where that report lands in the
   user's source is decided by the span the macro gave that token.  `own_spans s` lists the
   spans of the tokens of s's own template: the span the macro-written tokens are given
   (quote_spanned!) and the spans of the user's tokens spliced in.  Which of those tokens rustc
   blames for which fault is empirical knowledge about rustc, measured on every run. *)
From ASModel Require Import Base Tokens Report Ast IR Expand.

Definition field_span (f : field_name) : list span :=
  match f with FIdent _ sp => [sp] | FIndex _ sp => [sp] end.

Definition own_spans (s : stmt) : list span :=
  match s with
  | SSimple sp _ pt _ => sp :: map tok_span pt
  | SString sp _ _ lsp _ => [sp; lsp]
  | SCmp sp _ _ x _ => sp :: map tok_span (u_toks x)
  | SUnit sp _ path _ => sp :: map tok_span (p_toks path)
  | SVariant sp _ path _ _ _ => sp :: map tok_span (p_toks path)
  | SStruct sp _ path fields _ _ _ => sp :: map tok_span (p_toks path) ++ flat_map field_span fields
  | SRange sp _ r _ _ => sp :: map tok_span r
  | SRegex sp _ _ _ => [sp]
  | SLike sp _ x _ => sp :: map tok_span (u_toks x)
  | SClosure sp _ c _ => sp :: map tok_span (u_toks c)
  | SMapLen sp _ _ _ => [sp]
  | SMapGet sp _ k _ _ => sp :: map tok_span (u_toks k)
  | _ => []
  end.

(* the same, read off the written pattern: the spans of its own tokens (not of its children) *)
Section PatSpans.
  Variable join_ok : bool.
  Definition pat_own_spans (p : pat) : list span :=
    match p with
    | PSimple _ x => expr_span join_ok x :: map tok_span (u_toks x)
    | PString _ _ lsp _ => [lsp; lsp]
    | PCmp _ _ _ x => expr_span join_ok x :: map tok_span (u_toks x)
    | PRange _ x _ => expr_span join_ok x :: map tok_span (u_toks x)
    | PRegex _ _ sp => [sp]
    | PLike _ x => expr_span join_ok x :: map tok_span (u_toks x)
    | PClosure _ c => expr_span join_ok c :: map tok_span (u_toks c)
    | PEnum _ path _ => path_span join_ok path :: map tok_span (p_toks path)
    | PStruct _ (Some path) _ fields =>
        path_span join_ok path :: map tok_span (p_toks path) ++
        flat_map field_span
          (dedup_fields [] (flat_map (fun r : option field_name => match r with Some f => [f] | None => [] end)
                                     (map (fun fp : fop * pat => root_field_name (fst fp)) fields)))
    | _ => []
    end.
End PatSpans.

(* all statements nested in a statement, itself included *)
Fixpoint sub_stmts (s : stmt) : list stmt :=
  s :: match s with
       | SVariant _ _ _ _ body _ | SStruct _ _ _ _ _ body _ | SSeq body | STuple _ _ body | SSlice _ _ body _ =>
           flat_map sub_stmts body
       | SMapGet _ _ _ body _ => sub_stmts body
       | SSet _ preds _ _ => flat_map sub_stmts preds
       | _ => []
       end.

(* all patterns nested in a pattern, itself included *)
Fixpoint sub_pats (p : pat) : list pat :=
  p :: match p with
       | PStruct _ _ _ fields => flat_map (fun fp => sub_pats (snd fp)) fields
       | PEnum _ _ elems | PTuple _ _ elems => flat_map (fun el => sub_pats (snd el)) elems
       | PSlice _ _ elems | PSet _ _ _ elems => flat_map sub_pats elems
       | PMap _ _ _ entries => flat_map (fun kv => sub_pats (snd kv)) entries
       | _ => []
       end.

(* spans of the macro-written tokens of a value expression, and of the identifiers it names *)
Fixpoint vexpr_spans (e : vexpr) : list span :=
  match e with
  | VRoot _ | VBind _ => []
  | VFieldBind f => field_span f
  | VRef x => vexpr_spans x
  | VField x f => vexpr_spans x ++ field_span f
  | VDeref sp x => sp :: vexpr_spans x
  | VMethod sp x _ msp args => sp :: msp :: vexpr_spans x ++ flat_map (fun a => map tok_span (u_toks a)) args
  | VAwait sp x => sp :: vexpr_spans x
  | VNamed sp x _ fsp => sp :: fsp :: vexpr_spans x
  | VUnnamed sp x _ => sp :: vexpr_spans x
  | VIndex sp x i => sp :: vexpr_spans x ++ map tok_span (u_toks i)
  end.

(* the spans written in a field-operation chain *)
Fixpoint fop_spans (o : fop) : list span :=
  match o with
  | ODeref _ sp => [sp]
  | OMethod _ nsp sp args => sp :: nsp :: flat_map (fun a => map tok_span (u_toks a)) args
  | OAwait sp => [sp]
  | ONamed _ nsp sp => [sp; nsp]
  | OUnnamed _ sp => [sp]
  | OIndex i sp => sp :: map tok_span (u_toks i)
  | OChained _ ops => flat_map fop_spans ops
  end.
