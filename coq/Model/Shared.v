(* Shared.v — the two pieces of shared state in assert-struct/src/error.rs as transition
   systems: the process-wide source cache behind a RwLock (cached_source) and the
   per-thread plain-output counter (PlainOutputGuard); and the renderer choice. *)
From ASModel Require Import Base.
Local Open Scope string_scope.

(* ---- source cache ------------------------------------------------------------ *)

(* program counter of one call of cached_source(path):
     if let Ok(cache) = SOURCE_CACHE.read() { if let Some(c) = cache.get(path) { return Some(c) } }   -- PStart
     let content = read_to_string(path).ok()?;                                                        -- PRead
     if let Ok(mut cache) = SOURCE_CACHE.write() { cache.entry(path).or_insert_with(|| content) }     -- PInsert
     Some(content)
   Each lock is taken and released within one step: no step holds one lock while asking
   for another. *)
Inductive pc :=
| PStart
| PRead
| PInsert (content : string)
| PDone (result : option string).

Record call := { c_path : string; c_pc : pc }.

Definition cache := list (string * string).

Fixpoint cache_get (p : string) (c : cache) : option string :=
  match c with
  | [] => None
  | (q, s) :: r => if String.eqb p q then Some s else cache_get p r
  end.

Section Cache.
  Variable fs : string -> option string.       (* read_to_string: None = any failure *)

  Definition step_call (c : cache) (k : call) : cache * call :=
    match c_pc k with
    | PStart =>
        match cache_get (c_path k) c with
        | Some s => (c, {| c_path := c_path k; c_pc := PDone (Some s) |})
        | None => (c, {| c_path := c_path k; c_pc := PRead |})
        end
    | PRead =>
        match fs (c_path k) with
        | Some s => (c, {| c_path := c_path k; c_pc := PInsert s |})
        | None => (c, {| c_path := c_path k; c_pc := PDone None |})
        end
    | PInsert s =>
        ((match cache_get (c_path k) c with Some _ => c | None => (c_path k, s) :: c end),
         {| c_path := c_path k; c_pc := PDone (Some s) |})
    | PDone r => (c, k)
    end.

  Fixpoint update {A} (l : list A) (i : nat) (x : A) : list A :=
    match l, i with
    | [], _ => []
    | _ :: r, O => x :: r
    | y :: r, S j => y :: update r j x
    end.

  (* one scheduler choice: thread i takes its next step *)
  Definition step (st : cache * list call) (i : nat) : cache * list call :=
    match nth_error (snd st) i with
    | Some k => let '(c', k') := step_call (fst st) k in (c', update (snd st) i k')
    | None => st
    end.

  Definition run (st : cache * list call) (schedule : list nat) : cache * list call := fold_left step schedule st.
End Cache.

(* ---- plain-output guard: a per-thread depth counter ---------------------------- *)

Inductive guard_op := GNew | GDrop.

Definition guard_step (depth : nat) (o : guard_op) : nat :=
  match o with GNew => S depth | GDrop => Nat.pred depth end.     (* saturating_sub(1) *)

Definition plain_flag (depth : nat) : bool := negb (Nat.eqb depth 0).

(* the guard as it was before the repair: a boolean cleared by every drop *)
Definition guard_step_old (flag : bool) (o : guard_op) : bool :=
  match o with GNew => true | GDrop => false end.

(* live guards after a history (drops never exceed news in a real program) *)
Fixpoint live (h : list guard_op) (n : nat) : nat :=
  match h with [] => n | GNew :: r => live r (S n) | GDrop :: r => live r (Nat.pred n) end.

(* ---- renderer choice ---------------------------------------------------------- *)

(* Renderer::styled() iff no guard, NO_COLOR unset, stderr is a terminal *)
Definition styled (plain_guard no_color is_tty : bool) : bool :=
  negb (plain_guard || no_color || negb is_tty).
