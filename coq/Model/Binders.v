(* Binders.v — every identifier the generated assertion code binds (let, match
   arm patterns, closure parameters), read off the templates of Print.v.  User-written
   binders inside spliced user tokens (closure parameters, identifier patterns) are
   not introduced by the expansion and are not listed. *)
From ASModel Require Import Base Tokens Report Ast IR Nodes Expand Print.

Definition opt_binder (prefix : nat -> name) (b : option nat) : list string :=
  match b with None => [] | Some i => [name_str (prefix i)] end.

Definition part_binder (p : slice_part) : list string :=
  match p with SPBind i => [name_str (NElem i)] | _ => [] end.

Fixpoint stmt_binders (s : stmt) : list string :=
  match s with
  | SNop | SPanic _ => []
  | SSimple _ _ _ _ | SCmp _ _ _ _ _ | SUnit _ _ _ _ | SRange _ _ _ _ _ | SLike _ _ _ _
  | SClosure _ _ _ _ | SMapLen _ _ _ _ => []
  | SString _ _ _ _ _ => ["__assert_struct_scrutinee"%string; name_str NTmp; name_str NActual]
  | SRegex _ _ _ _ => [name_str NRe]
  | SVariant _ _ _ binders body _ => flat_map (opt_binder NElem) binders ++ flat_map stmt_binders body
  | SStruct _ _ _ fields _ body _ => map field_binder_str fields ++ flat_map stmt_binders body
  | SSeq body => flat_map stmt_binders body
  | STuple _ binders body => flat_map (opt_binder NTupleElem) binders ++ flat_map stmt_binders body
  | SSlice _ parts body _ => flat_map part_binder parts ++ flat_map stmt_binders body
  | SMapGet _ _ _ body _ => name_str NMapValue :: stmt_binders body
  | SSet _ preds _ _ =>
      name_str NSetSrc :: name_str NSetColl ::
      flat_map (fun x => x)
        (mapi (fun i pr => name_str (NSetPred i) :: name_str NSetIdx :: name_str NSetElem :: name_str NReport
                           :: stmt_binders pr) preds)
      ++ [name_str NSetPreds]
  end.

(* reserved: spelled with two leading underscores *)
Definition reserved (s : string) : bool := String.prefix "__" s.
