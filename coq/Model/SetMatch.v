(* SetMatch.v — model of __macro_support::set_match / set_backtrack
   (assert-struct/src/lib.rs).  M has one row per pattern and one column per
   element: M[p][e] is the (deterministic) answer of predicate p on element e. *)
From ASModel Require Import Base.

(* matched[i] = true *)
Fixpoint set_nth (i : nat) (l : list bool) : list bool :=
  match i, l with
  | _, [] => []
  | 0, _ :: r => true :: r
  | S i, b :: r => b :: set_nth i r
  end.

Section Back.
  Variable n : nat.   (* matched.len() *)

  (* fn set_backtrack(predicates, matched, pattern_idx): the recursion on
     pattern_idx is recursion on the remaining rows; `matched[i] = false` on the
     way back is modelled by not threading the mask out of the recursive call. *)
  Fixpoint backtrack (M : list (list bool)) (used : list bool) : bool :=
    match M with
    | [] => true
    | row :: rest =>
        existsb (fun i => negb (nth i used true) && nth i row false && backtrack rest (set_nth i used))
                (seq 0 n)
    end.

  (* The same search with the sequence of predicate calls (pattern index, element
     index) it makes, in order: `!matched[i] && predicates[p](i)` short-circuits,
     and the loop returns at the first success. *)
  Fixpoint try_elems (f : nat -> bool * list (nat * nat)) (is : list nat) : bool * list (nat * nat) :=
    match is with
    | [] => (false, [])
    | i :: r => let '(b, t) := f i in
                if b then (true, t) else let '(b', t') := try_elems f r in (b', t ++ t')
    end.

  Fixpoint backtrack_tr (p : nat) (M : list (list bool)) (used : list bool) : bool * list (nat * nat) :=
    match M with
    | [] => (true, [])
    | row :: rest =>
        try_elems (fun i =>
            if nth i used true then (false, [])
            else if nth i row false
                 then let '(b, t) := backtrack_tr (S p) rest (set_nth i used) in (b, (p, i) :: t)
                 else (false, [(p, i)]))
          (seq 0 n)
    end.
End Back.

Inductive sm_result :=
| SMPass
| SMFail (actual : string) (expected : option string).

Definition length_ok (n : nat) (rest : bool) (k : nat) : bool :=
  if rest then Nat.leb k n else Nat.eqb n k.

Definition set_match_tr (n : nat) (rest : bool) (M : list (list bool)) : sm_result * list (nat * nat) :=
  let k := List.length M in
  let got := String.append (nat_to_string n) " element(s)" in
  if negb (length_ok n rest k) then
    (SMFail got
       (Some (if rest then String.append "at least " (String.append (nat_to_string k) " element(s)")
              else String.append (nat_to_string k) " element(s)")), [])
  else
    let '(b, t) := backtrack_tr n 0 M (repeat false n) in
    if b then (SMPass, t) else (SMFail got None, t).

Definition set_match (n : nat) (rest : bool) (M : list (list bool)) : bool :=
  length_ok n rest (List.length M) && backtrack n M (repeat false n).

(* Brute-force reference used by the correspondence check as a second opinion:
   enumerate all injective assignments. *)
Fixpoint assignments (n : nat) (k : nat) : list (list nat) :=
  match k with
  | 0 => [[]]
  | S k' => flat_map (fun f => map (fun i => i :: f)
                                 (filter (fun i => negb (existsb (Nat.eqb i) f)) (seq 0 n)))
                     (assignments n k')
  end.

Fixpoint assignment_ok (M : list (list bool)) (f : list nat) : bool :=
  match M, f with
  | [], [] => true
  | row :: M', i :: f' => nth i row false && assignment_ok M' f'
  | _, _ => false
  end.

Definition brute_force (n : nat) (rest : bool) (M : list (list bool)) : bool :=
  length_ok n rest (List.length M) &&
  existsb (assignment_ok M) (assignments n (List.length M)).
