(* Modes.v — how the generated code uses the value expression it is handed (the rustc
   abstraction behind C09 and the acceptance half of C11).  Every template of
   expand.rs uses the expression in one of four ways; which ways rustc accepts for a
   by-value temporary, a place and a reference is empirical knowledge about rustc,
   measured by the form x position matrix on every run (tools/matrix.py). *)
From ASModel Require Import Base Tokens Report Ast IR Expand.

Inductive use :=
| UBorrow      (* &e, (e).method(..) taking &self, format!("{:?}", e): never moves, accepted for every kind of expression *)
| UInspect     (* matches!(e, <pattern that binds nothing>): inspects the place, never moves *)
| UMove.       (* e passed or bound by value: moves a non-Copy value; the callee sees T in one position and &T in another *)

Definition push_uses (p : push) : list use :=
  match ps_actual p with
  | ADebug _ | ADebugRef _ | AMapLen _ => [UBorrow]
  | ADebugActual | AMissingKey => []
  end.

Definition path_is_ident (p : rpath) : bool := match p_toks p with [TIdent _ _] => true | _ => false end.

(* every use of a value expression in the code generated for a statement, including the
   statements nested in it (whose value expressions are bindings of reference type or
   projections of the outer expression) *)
Fixpoint stmt_uses (s : stmt) : list use :=
  match s with
  | SNop | SPanic _ => []
  | SSimple _ _ _ p => UInspect :: push_uses p
  | SString _ _ _ _ p => UBorrow :: push_uses p
  | SCmp _ _ _ _ p | SRange _ _ _ _ p | SRegex _ _ _ p | SLike _ _ _ p | SMapLen _ _ _ p => UBorrow :: push_uses p
  | SUnit _ _ path p => (if path_is_ident path then UMove else UInspect) :: push_uses p
  | SVariant _ _ _ _ body p | SStruct _ _ _ _ _ body p => UBorrow :: flat_map stmt_uses body ++ push_uses p
  | SSeq body => flat_map stmt_uses body
  | STuple _ _ body => UBorrow :: flat_map stmt_uses body
  | SSlice _ _ body p => UBorrow :: flat_map stmt_uses body ++ push_uses p
  | SClosure _ _ _ p => UMove :: push_uses p
  | SMapGet _ _ _ body missing => UBorrow :: stmt_uses body ++ push_uses missing
  | SSet _ preds _ _ => UBorrow :: flat_map stmt_uses preds
  end.

(* pattern forms whose expansion passes the value by value *)
Fixpoint by_value_free (p : pat) : bool :=
  match p with
  | PClosure _ _ => false
  | PEnum _ path [] => negb (path_is_ident path)
  | PStruct _ _ _ fields => forallb (fun fp => by_value_free (snd fp)) fields
  | PEnum _ _ elems | PTuple _ _ elems => forallb (fun el => by_value_free (snd el)) elems
  | PSlice _ _ elems | PSet _ _ _ elems => forallb by_value_free elems
  | PMap _ _ _ entries => forallb (fun kv => by_value_free (snd kv)) entries
  | _ => true
  end.
