(* Sem.v — meaning of the generated code (IR.v): a big-step evaluator that mirrors
   what rustc's semantics gives the corresponding Rust templates (match on a
   reference with default binding modes, matches!, method auto-ref, as_slice,
   len/get duck typing, closures over a probe report).  This is a *model of Rust*
   for the IR fragment: it is validated against rustc on every run (e2e stage),
   not proved.  `Stuck` stands for "does not type-check / out of the modelled
   sub-language"; the theorems exclude it by their hypotheses. *)
From ASModel Require Import Base Tokens Report Ast IR Expand SetMatch Values Nodes.

Inductive bkey := BName (n : name) | BField (f : string).

Definition name_eqb (a b : name) : bool :=
  match a, b with
  | NElem i, NElem j | NTupleElem i, NTupleElem j | NSetPred i, NSetPred j => Nat.eqb i j
  | NMapValue, NMapValue | NSetElem, NSetElem | NSetIdx, NSetIdx | NSetSrc, NSetSrc | NSetColl, NSetColl
  | NSetPreds, NSetPreds | NReport, NReport | NTmp, NTmp | NActual, NActual | NRe, NRe => true
  | _, _ => false
  end.

Definition bkey_eqb (a b : bkey) : bool :=
  match a, b with
  | BName n, BName m => name_eqb n m
  | BField f, BField g => String.eqb f g
  | _, _ => false
  end.

Record env := {
  e_root : value;                          (* what the asserted expression evaluates to *)
  e_bind : list (bkey * value);            (* bindings made by the expansion, innermost first *)
  e_caller : list (string * value);        (* the caller's variables *)
  e_units : list string                    (* single identifiers that resolve to a unit variant / constant *)
}.

Definition bind (k : bkey) (v : value) (en : env) : env :=
  {| e_root := e_root en; e_bind := (k, v) :: e_bind en; e_caller := e_caller en; e_units := e_units en |}.

Definition bind_many (kvs : list (bkey * value)) (en : env) : env :=
  {| e_root := e_root en; e_bind := kvs ++ e_bind en; e_caller := e_caller en; e_units := e_units en |}.

Fixpoint lookup (k : bkey) (l : list (bkey * value)) : option value :=
  match l with
  | [] => None
  | (k', v) :: r => if bkey_eqb k k' then Some v else lookup k r
  end.

Inductive event :=
| EvRoot                      (* the asserted expression was evaluated *)
| EvMethod (m : string)       (* a written method call was evaluated *)
| EvIndex                     (* a written index operation was evaluated *)
| EvDebug (node : N).         (* a value was Debug-formatted for the entry of node *)

Section Eval.
  Variable en : env.

  (* value of a value expression, with the evaluation events it causes *)
  Fixpoint eval (e : vexpr) : option (value * list event) :=
    match e with
    | VRoot _ => Some (e_root en, [EvRoot])
    | VBind n => match lookup (BName n) (e_bind en) with Some v => Some (v, []) | None => None end
    | VFieldBind f => match lookup (BField (field_name_str f)) (e_bind en) with Some v => Some (v, []) | None => None end
    | VRef x => match eval x with Some (v, t) => Some (VRefV v, t) | None => None end
    | VField x f =>
        match eval x with
        | Some (v, t) =>
            match f with
            | FIdent s _ => match field_of v s with Some w => Some (w, t) | None => None end
            | FIndex i _ => match elem_of v i with Some w => Some (w, t) | None => None end
            end
        | None => None
        end
    | VDeref _ x =>
        match eval x with
        | Some (VRefV w, t) | Some (VBoxV w, t) => Some (w, t)
        | _ => None
        end
    | VMethod _ x m _ args =>
        match eval x, all_some (map (ueval (e_caller en)) args) with
        | Some (v, t), Some avs =>
            match method_sem m v avs with Some w => Some (w, t ++ [EvMethod m]) | None => None end
        | _, _ => None
        end
    | VAwait _ _ => None
    | VNamed _ x f _ =>
        match eval x with
        | Some (v, t) => match field_of v f with Some w => Some (w, t) | None => None end
        | None => None
        end
    | VUnnamed _ x i =>
        match eval x with
        | Some (v, t) => match elem_of v i with Some w => Some (w, t) | None => None end
        | None => None
        end
    | VIndex _ x i =>
        match eval x, ueval (e_caller en) i with
        | Some (v, t), Some (VInt k) =>
            match auto_deref v with
            | VVecV vs => if Z.ltb k 0 then None
                          else match nth_error vs (Z.to_nat k) with Some w => Some (w, t ++ [EvIndex]) | None => None end
            | _ => None
            end
        | _, _ => None
        end
    end.
End Eval.

Definition outcome := option (list entry * list event).     (* None = stuck *)

Definition seq2 (a b : outcome) : outcome :=
  match a, b with
  | Some (r1, t1), Some (r2, t2) => Some (r1 ++ r2, t1 ++ t2)
  | _, _ => None
  end.

Definition expected_text (x : expected) : option string :=
  match x with
  | ENone => None
  | EText s => Some s
  | EEntries n => Some (nat_to_string n ++ " entries")%string
  | EKeyPresent s => Some ("key present: " ++ s)%string
  end.

(* executing generate_error_push: the actual-value text is computed *now*, by
   evaluating the spliced value expression again *)
Definition do_push (en : env) (p : push) (actual_str : option value) : outcome :=
  let mk a t := Some ([{| en_node := ps_node p; en_actual := a; en_expected := expected_text (ps_expected p) |}], t) in
  match ps_actual p with
  | ADebug e | ADebugRef e =>
      match eval en e with Some (v, t) => mk (TDebug (peel v)) (t ++ [EvDebug (ps_node p)]) | None => None end
  | ADebugActual =>
      match actual_str with Some v => mk (TDebug (peel v)) [EvDebug (ps_node p)] | None => None end
  | AMapLen e =>
      match eval en e with
      | Some (v, t) => match auto_deref v with VMapV kvs => mk (TMapLen (List.length kvs)) t | _ => None end
      | None => None
      end
  | AMissingKey => mk TMissingKey []
  end.

Definition test (en : env) (r : option bool) (t : list event) (p : push) (actual_str : option value) : outcome :=
  match r with
  | None => None
  | Some true => Some ([], t)
  | Some false => seq2 (Some ([], t)) (do_push en p actual_str)
  end.

(* binding the elements of a slice pattern with at most one `..` *)
Fixpoint count_rest (parts : list slice_part) : nat :=
  match parts with [] => 0 | SPRest :: r => S (count_rest r) | _ :: r => count_rest r end.

(* the bindings a slice pattern makes: elements before `..` pair with the front of the
   slice, elements after it with its end.  None = the pattern does not fit the slice. *)
Fixpoint pair_parts (parts : list slice_part) (vs : list value) : option (list (bkey * value)) :=
  match parts, vs with
  | [], [] => Some []
  | SPWild :: r, _ :: vr => pair_parts r vr
  | SPBind i :: r, v :: vr =>
      match pair_parts r vr with Some l => Some ((BName (NElem i), VRefV v) :: l) | None => None end
  | _, _ => None
  end.

Fixpoint pair_parts_rest (parts : list slice_part) (vs : list value) : option (list (bkey * value)) :=
  match parts with
  | [] => Some []
  | SPRest :: r => pair_parts r (skipn (List.length vs - List.length r) vs)
  | SPWild :: r => match vs with _ :: vr => pair_parts_rest r vr | [] => None end
  | SPBind i :: r =>
      match vs with
      | v :: vr => match pair_parts_rest r vr with Some l => Some ((BName (NElem i), VRefV v) :: l) | None => None end
      | [] => None
      end
  end.

(* Some (Some bindings) = the slice pattern matched; Some None = it did not; None = ill-formed (two `..`) *)
Definition slice_match (parts : list slice_part) (vs : list value) : option (option (list (bkey * value))) :=
  match count_rest parts with
  | 0 => Some (if Nat.eqb (List.length vs) (List.length parts) then pair_parts parts vs else None)
  | 1 => Some (if Nat.leb (List.length parts - 1) (List.length vs) then pair_parts_rest parts vs else None)
  | _ => None
  end.

Fixpoint pair_opts (mk : nat -> name) (bs : list (option nat)) (vs : list value) (wrap : value -> value)
  : option (list (bkey * value)) :=
  match bs, vs with
  | [], [] => Some []
  | None :: br, _ :: vr => pair_opts mk br vr wrap
  | Some i :: br, v :: vr =>
      match pair_opts mk br vr wrap with Some l => Some ((BName (mk i), wrap v) :: l) | None => None end
  | _, _ => None
  end.

Fixpoint pair_fields (fs : list field_name) (vals : list (string * value)) : option (list (bkey * value)) :=
  match fs with
  | [] => Some []
  | f :: r => match assoc (field_name_str f) vals, pair_fields r vals with
              | Some v, Some l => Some ((BField (field_name_str f), VRefV v) :: l)
              | _, _ => None                           (* E0026: no such field *)
              end
  end.

Definition lists_all (fs : list field_name) (vals : list (string * value)) : bool :=
  forallb (fun fv => existsb (fun f => String.eqb (field_name_str f) (fst fv)) fs) vals.

Fixpoint exec (s : stmt) (en : env) {struct s} : outcome :=
  let run_body := fun (body : list stmt) (en' : env) =>
    (fix go (l : list stmt) : outcome :=
       match l with [] => Some ([], []) | x :: r => seq2 (exec x en') (go r) end) body in
  match s with
  | SNop => Some ([], [])
  | SPanic _ => None
  | SSimple _ e pt p =>
      match eval en e with
      | Some (v, t) => test en (lit_pat_matches pt v) t p None
      | None => None
      end
  | SString _ e lit _ p =>
      match eval en e, parse_str_lit lit with
      | Some (v, t), Some s =>
          match peel v with
          | VStr w => test en (Some (String.eqb s w)) t p (Some (VStr w))
          | _ => None
          end
      | _, _ => None
      end
  | SCmp _ op e x p =>
      match eval en e, ueval (e_caller en) x with
      | Some (v, t), Some w => test en (cmp_holds op v w) t p None
      | _, _ => None
      end
  | SUnit _ e path p =>
      match eval en e, path_last path with
      | Some (v, t), Some nm =>
          if path_single path && negb (existsb (String.eqb nm) (e_units en))
          then Some ([], t)                   (* an identifier that resolves to nothing is a binding: matches anything *)
          else match peel v with
               | VVariantV n [] => test en (Some (String.eqb n nm)) t p None
               | VVariantV n _ => test en (Some false) t p None
               | VStructV n _ => test en (Some false) t p None
               | _ => None
               end
      | _, _ => None
      end
  | SVariant _ e path binders body p =>
      match eval en e, path_last path with
      | Some (v, t), Some nm =>
          match peel v with
          | VVariantV n args =>
              if String.eqb n nm then
                match pair_opts NElem binders args VRefV with
                | Some bs => seq2 (Some ([], t)) (run_body body (bind_many bs en))
                | None => None                       (* arity: E0023 *)
                end
              else test en (Some false) t p None
          | VStructV _ _ => test en (Some false) t p None
          | _ => None
          end
      | _, _ => None
      end
  | SStruct _ e path fields rest body p =>
      match eval en e, path_last path with
      | Some (v, t), Some nm =>
          match peel v with
          | VStructV n vals =>
              if String.eqb n nm then
                if rest || lists_all fields vals then          (* E0027 otherwise *)
                  match pair_fields fields vals with
                  | Some bs => seq2 (Some ([], t)) (run_body body (bind_many bs en))
                  | None => None
                  end
                else None
              else test en (Some false) t p None
          | VVariantV _ _ => test en (Some false) t p None
          | _ => None
          end
      | _, _ => None
      end
  | SSeq body => run_body body en
  | STuple e binders body =>
      match eval en e with
      | Some (v, t) =>
          match peel v with
          | VTupleV vs =>
              (* `match &e`: default binding mode makes the parts references *)
              let wrap := VRefV in
              match pair_opts NTupleElem binders vs wrap with
              | Some bs => seq2 (Some ([], t)) (run_body body (bind_many bs en))
              | None => None
              end
          | _ => None
          end
      | None => None
      end
  | SRange _ e _ parts p =>
      match eval en e with
      | Some (v, t) => test en (range_holds parts v) t p None
      | None => None
      end
  | SSlice e parts body p =>
      match eval en e with
      | Some (v, t) =>
          match elements_of v with
          | Some vs =>
              match slice_match parts vs with
              | Some (Some bs) => seq2 (Some ([], t)) (run_body body (bind_many bs en))
              | Some None => test en (Some false) t p None
              | None => None
              end
          | None => None
          end
      | None => None
      end
  | SRegex _ e pattern p =>
      match eval en e with
      | Some (v, t) =>
          match peel v with
          | VStr s => test en (regex_match pattern s) t p None
          | _ => None
          end
      | None => None
      end
  | SLike _ e x p =>
      match eval en e, ueval (e_caller en) x with
      | Some (v, t), Some w =>
          match peel v, peel w with
          | VStr s, VStr re => test en (regex_match re s) t p None
          | _, _ => None
          end
      | _, _ => None
      end
  | SClosure _ e c p =>
      match eval en e with
      | Some (v, t) => test en (closure_sem c v) t p None
      | None => None
      end
  | SMapLen _ e n p =>
      match eval en e with
      | Some (v, t) =>
          match auto_deref v with
          | VMapV kvs => test en (Some (Nat.eqb (List.length kvs) n)) t p None
          | _ => None
          end
      | None => None
      end
  | SMapGet _ e k body missing =>
      match eval en e, ueval (e_caller en) k with
      | Some (v, t), Some kv =>
          match auto_deref v with
          | VMapV kvs =>
              match map_get kv kvs with
              | Some w => seq2 (Some ([], t)) (exec body (bind (BName NMapValue) (VRefV w) en))
              | None => seq2 (Some ([], t)) (do_push en missing None)
              end
          | _ => None
          end
      | _, _ => None
      end
  | SSet e preds rest node =>
      match eval en e with
      | Some (v, t) =>
          match elements_of v with
          | Some vs =>
              (* one predicate closure per pattern: run the element's assertion against a
                 probe report; it matches iff nothing was pushed *)
              let rows :=
                (fix go (l : list stmt) : list (list (option bool)) :=
                   match l with
                   | [] => []
                   | pr :: r =>
                       map (fun el => match exec pr (bind (BName NSetElem) (VRefV el) en) with
                                      | Some (rep, _) => Some (match rep with [] => true | _ => false end)
                                      | None => None
                                      end) vs :: go r
                   end) preds in
              match all_some (map all_some rows) with
              | Some M =>
                  if set_match (List.length vs) rest M then Some ([], t)
                  else Some ([{| en_node := node; en_actual := TSetLen (List.length vs);
                                 en_expected :=
                                   if negb (length_ok (List.length vs) rest (List.length M))
                                   then Some (if rest then "at least " ++ nat_to_string (List.length M) ++ " element(s)"
                                              else nat_to_string (List.length M) ++ " element(s)")%string
                                   else None |}], t)
              | None => None
              end
          | None => None
          end
      | None => None
      end
  end.

(* the whole assertion, as fn expand arranges it: a root `_` asserts nothing but still evaluates the asserted expression
   (`let _ = &(value);`); every other root pattern is its own expansion applied to the asserted expression *)
Definition exec_top (join_ok : bool) (p : pat) (value : list tok) (en : env) : outcome :=
  if is_wild p then match eval en (VRoot value) with Some (_, t) => Some ([], t) | None => None end
  else exec (expand join_ok p (VRoot value)) en.
