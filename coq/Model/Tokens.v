(* Tokens.v — Rust tokens as proc_macro2 presents them, flattened (a group is an
   open token ... a close token, both carrying the group's span), and a small
   template language that mirrors quote! / quote_spanned!. *)
From ASModel Require Import Base.
Local Open Scope string_scope.

(* A span is the call site (everything quote! writes itself) or a source range
   (line, column) .. (line, column) of the caller's tokens. *)
Inductive span := SCall | SPos (l1 c1 l2 c2 : N).

Inductive delim := DParen | DBrace | DBracket | DNone.

Inductive tok :=
| TIdent (s : string) (sp : span)
| TPunct (c : ascii) (joint : bool) (sp : span)
| TLit (s : string) (sp : span)
| TOpen (d : delim) (sp : span)
| TClose (d : delim) (sp : span).

Definition tok_span (t : tok) : span :=
  match t with
  | TIdent _ sp | TPunct _ _ sp | TLit _ sp | TOpen _ sp | TClose _ sp => sp
  end.

(* Span::join on the fallback implementation: from the start of the first to the
   end of the second *)
Definition span_join (a b : span) : span :=
  match a, b with
  | SPos l1 c1 _ _, SPos _ _ l2 c2 => SPos l1 c1 l2 c2
  | _, _ => a
  end.

(* syn::spanned::Spanned::span for a token sequence: first.join(last).unwrap_or(first).
   `join_ok` is false under a stable rustc, where Span::join returns None. *)
Definition toks_span (join_ok : bool) (ts : list tok) : span :=
  match ts with
  | [] => SCall
  | t :: r =>
      match r with
      | [] => tok_span t
      | _ => if join_ok then span_join (tok_span t) (tok_span (last r t)) else tok_span t
      end
  end.

(* ---- templates ---------------------------------------------------------- *)

Definition is_ident_start (c : ascii) : bool :=
  let n := nat_of_ascii c in
  (Nat.leb 65 n && Nat.leb n 90) || (Nat.leb 97 n && Nat.leb n 122) || Nat.eqb n 95.
Definition is_digit (c : ascii) : bool :=
  let n := nat_of_ascii c in Nat.leb 48 n && Nat.leb n 57.

Fixpoint puncts (s : string) (sp : span) : list tok :=
  match s with
  | EmptyString => []
  | String c EmptyString => [TPunct c false sp]
  | String c r => TPunct c true sp :: puncts r sp
  end.

Definition digit_val (c : ascii) : nat := nat_of_ascii c - 48.

(* one template word *)
Definition word_toks (sp : span) (args : list (list tok)) (w : string) : list tok :=
  match w with
  | EmptyString => []
  | String c r =>
      if Ascii.eqb c "$" then
        match r with
        | String d _ => nth (digit_val d) args []
        | EmptyString => []
        end
      else if String.eqb w "(" then [TOpen DParen sp]
      else if String.eqb w ")" then [TClose DParen sp]
      else if String.eqb w "{" then [TOpen DBrace sp]
      else if String.eqb w "}" then [TClose DBrace sp]
      else if String.eqb w "[" then [TOpen DBracket sp]
      else if String.eqb w "]" then [TClose DBracket sp]
      else if is_ident_start c then [TIdent w sp]
      else if is_digit c || Ascii.eqb c """" then [TLit w sp]
      else puncts w sp
  end.

(* quote_spanned!{sp=> ...}: the template's own tokens get `sp`; `$k` splices the
   k-th argument with the spans it already has.  quote!{...} is `tpl SCall`. *)
Definition tpl (sp : span) (t : string) (args : list (list tok)) : list tok :=
  flat_map (word_toks sp args) (split_on " " t).

(* a string literal token as quote! makes one from a &str / String: Literal::string,
   i.e. Rust's escape_debug-like rendering.  The harness supplies strings whose
   rendering needs only the escapes below (escape_debug, except that ' stays). *)
Fixpoint escape_str (s : string) : string :=
  match s with
  | EmptyString => EmptyString
  | String c r =>
      let n := nat_of_ascii c in
      if Nat.eqb n 34 then String "\" (String """" (escape_str r))
      else if Nat.eqb n 92 then String "\" (String "\" (escape_str r))
      else if Nat.eqb n 10 then String "\" (String "n" (escape_str r))
      else if Nat.eqb n 9 then String "\" (String "t" (escape_str r))
      else if Nat.eqb n 13 then String "\" (String "r" (escape_str r))
      else String c (escape_str r)
  end.
Definition str_lit (s : string) (sp : span) : list tok :=
  [TLit (String """" (escape_str s ++ String """" EmptyString)) sp].

(* every item followed by the separator: #(#xs,)* *)
Definition term_by (sep : list tok) (xs : list (list tok)) : list tok := flat_map (fun x => (x ++ sep)%list) xs.

(* comma-separated splice: #(#xs),* *)
Fixpoint sep_by (sep : list tok) (xs : list (list tok)) : list tok :=
  match xs with
  | [] => []
  | [x] => x
  | x :: r => x ++ sep ++ sep_by sep r
  end.
