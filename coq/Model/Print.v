(* Print.v — the exact token sequence of the expansion: each IR constructor is
   printed with the quote! / quote_spanned! template of its generator in
   assert-struct-macros/src/expand.rs, and the node table with the templates of
   expand/nodes.rs.  Compared token by token (text, spacing, span) with the real
   expansion on every run. *)
From ASModel Require Import Base Tokens Report Ast IR Nodes Expand.
Local Open Scope string_scope.

Definition name_str (n : name) : string :=
  match n with
  | NElem i => "__elem_" ++ nat_to_string i
  | NTupleElem i => "__tuple_elem_" ++ nat_to_string i
  | NMapValue => "__map_value"
  | NSetElem => "__set_elem"
  | NSetIdx => "__set_idx"
  | NSetSrc => "__set_src"
  | NSetColl => "__set_coll"
  | NSetPred i => "__set_pred_" ++ nat_to_string i
  | NSetPreds => "__set_preds"
  | NReport => "__report"
  | NTmp => "__assert_struct_tmp"
  | NActual => "__assert_struct_actual"
  | NRe => "__assert_struct_re"
  end.

Definition ident (s : string) : list tok := [TIdent s SCall].
Definition node_ident (id : N) : list tok := ident ("__PATTERN_NODE_" ++ N_to_string id).

Definition pp_field_name (f : field_name) : list tok :=
  match f with
  | FIdent s sp => [TIdent s sp]
  | FIndex n sp => [TLit (N_to_string n) sp]         (* syn::Index: unsuffixed literal, spanned like the index as written *)
  end.

(* the binding a destructured field is given: a reserved name derived from the field,
   carrying the field token's span *)
Definition strip_raw (s : string) : string :=
  match s with String "r" (String "#" r) => r | _ => s end.
Definition field_binder_str (f : field_name) : string :=
  "__assert_struct_f_" ++ strip_raw (field_name_str f).
Definition pp_field_binder (f : field_name) : list tok :=
  [TIdent (field_binder_str f) (match f with FIdent _ sp => sp | FIndex _ sp => sp end)].

Fixpoint pp_vexpr (e : vexpr) : list tok :=
  match e with
  | VRoot toks => toks
  | VBind n => ident (name_str n)
  | VFieldBind f => pp_field_binder f
  | VRef x => tpl SCall "& $0" [pp_vexpr x]
  | VField x f => tpl SCall "( $0 ) . $1" [pp_vexpr x; pp_field_name f]
  | VDeref sp x => tpl sp "* $0" [pp_vexpr x]
  | VMethod sp x m msp args =>
      tpl sp "$0 . $1 ( $2 )" [pp_vexpr x; [TIdent m msp]; sep_by (tpl sp "," []) (map u_toks args)]
  | VAwait sp x => tpl sp "$0 . await" [pp_vexpr x]
  | VNamed sp x f fsp => tpl sp "$0 . $1" [pp_vexpr x; [TIdent f fsp]]
  | VUnnamed sp x i => tpl sp "$0 . $1" [pp_vexpr x; [TLit (N_to_string i) sp]]
  | VIndex sp x i => tpl sp "$0 [ $1 ]" [pp_vexpr x; u_toks i]
  end.

Definition usize_lit (n : nat) : list tok := [TLit (nat_to_string n ++ "usize") SCall].
Definition u32_lit (n : N) : list tok := [TLit (N_to_string n ++ "u32") SCall].
Definition bool_tok (b : bool) : list tok := ident (if b then "true" else "false").

Definition pp_actual (a : actual) : list tok :=
  match a with
  | ADebug e => tpl SCall "format ! ( ""{:?}"" , $0 )" [pp_vexpr e]
  | ADebugRef e => tpl SCall "format ! ( ""{:?}"" , & ( $0 ) )" [pp_vexpr e]
  | ADebugActual => tpl SCall "format ! ( ""{:?}"" , __assert_struct_actual )" []
  | AMapLen e => tpl SCall "format ! ( $0 , ( $1 ) . len ( ) )" [str_lit "map with {} entries" SCall; pp_vexpr e]
  | AMissingKey => tpl SCall "$0 . to_string ( )" [str_lit "missing key" SCall]
  end.

Definition pp_expected (x : expected) : list tok :=
  match x with
  | ENone => tpl SCall "None" []
  | EText s => tpl SCall "Some ( $0 . to_string ( ) )" [str_lit s SCall]
  | EEntries n => tpl SCall "Some ( format ! ( $0 , $1 ) )" [str_lit "{} entries" SCall; usize_lit n]
  | EKeyPresent s => tpl SCall "Some ( format ! ( $0 , $1 ) )" [str_lit "key present: {}" SCall; str_lit s SCall]
  end.

(* generate_error_push *)
Definition pp_push (p : push) : list tok :=
  tpl (ps_span p) "__report . push ( & $0 , $1 , $2 ) ;"
      [node_ident (ps_node p); pp_actual (ps_actual p); pp_expected (ps_expected p)].

Definition cmp_method (o : cmp_op) : string :=
  match o with OpLt => "lt" | OpLe => "le" | OpGt => "gt" | OpGe => "ge" | OpEq => "eq" | OpNe => "ne" end.

Definition pp_binder (prefix : nat -> name) (b : option nat) : list tok :=
  match b with None => ident "_" | Some i => ident (name_str (prefix i)) end.

Definition pp_part (p : slice_part) : list tok :=
  match p with
  | SPRest => tpl SCall ".." []
  | SPWild => ident "_"
  | SPBind i => ident (name_str (NElem i))
  end.

Definition comma (sp : span) : list tok := [TPunct "," false sp].

Definition PANIC_MARK : list tok := [TIdent "<<macro-panics>>" SCall].

Fixpoint pp_stmt (s : stmt) : list tok :=
  match s with
  | SNop => []
  | SPanic _ => PANIC_MARK
  | SSimple sp e pt p =>
      tpl sp "if ! matches ! ( $0 , $1 ) { $2 }" [pp_vexpr e; pt; pp_push p]
  | SString sp e lit lsp p =>
      tpl sp "{ match & ( $0 ) { __assert_struct_scrutinee => { let __assert_struct_tmp = __assert_struct_scrutinee ; let __assert_struct_actual = ( * __assert_struct_tmp ) . as_ref ( ) ; if ! matches ! ( __assert_struct_actual , $1 ) { $2 } } } }"
          [pp_vexpr e; [TLit lit lsp]; pp_push p]
  | SCmp sp op e x p =>
      tpl sp ("# [ allow ( clippy :: nonminimal_bool ) ] if ! ( ( $0 ) . " ++ cmp_method op ++ " ( & ( $1 ) ) ) { $2 }")
          [pp_vexpr e; u_toks x; pp_push p]
  | SUnit sp e path p =>
      tpl sp "if ! matches ! ( $0 , $1 ) { $2 }" [pp_vexpr e; p_toks path; pp_push p]
  | SVariant sp e path binders body p =>
      tpl sp "# [ allow ( unreachable_patterns ) ] match & ( $0 ) { $1 ( $2 ) => { $3 } , _ => { $4 } }"
          [pp_vexpr e; p_toks path; sep_by (comma sp) (map (pp_binder NElem) binders);
           flat_map pp_stmt body; pp_push p]
  | SStruct sp e path fields rest body p =>
      tpl sp "# [ allow ( unreachable_patterns ) ] match & ( $0 ) { $1 { $2 $3 } => { $4 } , _ => { $5 } }"
          [pp_vexpr e; p_toks path;
           sep_by (comma sp) (map (fun f => (pp_field_name f ++ [TPunct ":" false sp] ++ pp_field_binder f)%list) fields);
           (if rest then match fields with [] => tpl SCall ".." [] | _ => tpl SCall ", .." [] end else []);
           flat_map pp_stmt body; pp_push p]
  | SSeq body => flat_map pp_stmt body
  | STuple e binders body =>
      tpl SCall "# [ allow ( unreachable_patterns ) ] match & ( $0 ) { ( $1 ) => { $2 } , _ => unreachable ! ( $3 ) , }"
          [pp_vexpr e; term_by (comma SCall) (map (pp_binder NTupleElem) binders);
           flat_map pp_stmt body; str_lit "Plain tuple match should always succeed" SCall]
  | SRange sp e r _ p =>
      tpl sp "match & ( $0 ) { $1 => { } , _ => { $2 } }" [pp_vexpr e; r; pp_push p]
  | SSlice e parts body p =>
      tpl SCall "match ( $0 ) . as_slice ( ) { [ $1 ] => { $2 } _ => { $3 } }"
          [pp_vexpr e; sep_by (comma SCall) (map pp_part parts); flat_map pp_stmt body; pp_push p]
  | SRegex sp e pattern p =>
      tpl sp "{ use :: assert_struct :: Like as _ ; let __assert_struct_re = :: assert_struct :: __macro_support :: Regex :: new ( $0 ) . expect ( concat ! ( $1 , $0 ) ) ; if ! ( $2 ) . like ( & __assert_struct_re ) { $3 } }"
          [str_lit pattern SCall; str_lit "Invalid regex pattern: " sp; pp_vexpr e; pp_push p]
  | SLike sp e x p =>
      tpl sp "{ use :: assert_struct :: Like as _ ; if ! ( $0 ) . like ( & $1 ) { $2 } }" [pp_vexpr e; u_toks x; pp_push p]
  | SClosure sp e c p =>
      tpl sp "{ if ! :: assert_struct :: __macro_support :: check_closure_condition ( $0 , $1 ) { $2 } }"
          [pp_vexpr e; u_toks c; pp_push p]
  | SMapLen sp e n p =>
      tpl sp "if ( $0 ) . len ( ) != $1 { $2 }" [pp_vexpr e; usize_lit n; pp_push p]
  | SMapGet sp e k body missing =>
      let get := if u_strlit k
                 then tpl sp "( $0 ) . get ( & ( $1 ) . to_string ( ) )" [pp_vexpr e; u_toks k]
                 else tpl sp "( $0 ) . get ( & $1 )" [pp_vexpr e; u_toks k] in
      tpl sp "match $0 { Some ( __map_value ) => { $1 } None => { $2 } }" [get; pp_stmt body; pp_push missing]
  | SSet e preds rest node =>
      let pred_defs :=
        flat_map (fun x => x)
          (mapi (fun i pr =>
                   tpl SCall "let $0 = | __set_idx : usize | -> bool { let __set_elem = __set_coll [ __set_idx ] ; # [ allow ( unused_mut ) ] let mut __report = :: assert_struct :: __macro_support :: ErrorReport :: new_probe ( ) ; $1 __report . is_empty ( ) } ;"
                       [ident (name_str (NSetPred i)); pp_stmt pr]) preds) in
      let pred_refs :=
        sep_by (comma SCall) (mapi (fun i _ => tpl SCall "& $0" [ident (name_str (NSetPred i))]) preds) in
      tpl SCall "{ let __set_src = & ( $0 ) ; let __set_coll : :: std :: vec :: Vec < _ > = __set_src . into_iter ( ) . collect ( ) ; $1 let __set_preds : & [ & dyn :: std :: ops :: Fn ( usize ) -> bool ] = & [ $2 ] ; :: assert_struct :: __macro_support :: set_match ( __set_coll . len ( ) , $3 , __set_preds , & mut __report , & $4 , ) ; }"
          [pp_vexpr e; pred_defs; pred_refs; bool_tok rest; node_ident node]
  end.

(* ---- node constants (expand/nodes.rs) ------------------------------------ *)

Definition MS : string := ":: assert_struct :: __macro_support ::".

Definition pp_refs (ids : list N) : list tok :=
  sep_by (comma SCall) (map (fun id => tpl SCall "& $0" [node_ident id]) ids).

Definition pp_named_refs (es : list (string * N)) : list tok :=
  sep_by (comma SCall) (map (fun e => tpl SCall "( $0 , & $1 )" [str_lit (fst e) SCall; node_ident (snd e)]) es).

Definition cmp_variant (o : cmp_op) : string :=
  match o with
  | OpLt => "Less" | OpLe => "LessEqual" | OpGt => "Greater" | OpGe => "GreaterEqual"
  | OpEq => "Equal" | OpNe => "NotEqual"
  end.

Definition pp_kind (d : node_desc) : list tok :=
  match d with
  | NDSimple v => tpl SCall (MS ++ " NodeKind :: Simple { value : $0 , }") [str_lit v SCall]
  | NDCmp op v =>
      tpl SCall (MS ++ " NodeKind :: Comparison { op : " ++ MS ++ " ComparisonOp :: " ++ cmp_variant op ++ " , value : $0 , }")
          [str_lit v SCall]
  | NDRange p => tpl SCall (MS ++ " NodeKind :: Range { pattern : $0 , }") [str_lit p SCall]
  | NDRegex p => tpl SCall (MS ++ " NodeKind :: Regex { pattern : $0 , }") [str_lit p SCall]
  | NDLike e => tpl SCall (MS ++ " NodeKind :: Like { expr : $0 , }") [str_lit e SCall]
  | NDWild => tpl SCall (MS ++ " NodeKind :: Wildcard") []
  | NDClosure c => tpl SCall (MS ++ " NodeKind :: Closure { closure : $0 , }") [str_lit c SCall]
  | NDEnum path args =>
      tpl SCall (MS ++ " NodeKind :: EnumVariant { path : $0 , args : $1 , }")
          [str_lit path SCall;
           match args with
           | None => tpl SCall "None" []
           | Some ids => tpl SCall "Some ( & [ $0 ] )" [pp_refs ids]
           end]
  | NDTuple items => tpl SCall (MS ++ " NodeKind :: Tuple { items : & [ $0 ] , }") [pp_refs items]
  | NDSlice items rest =>
      tpl SCall (MS ++ " NodeKind :: Slice { items : & [ $0 ] , rest : $1 , }") [pp_refs items; bool_tok rest]
  | NDSet items rest =>
      tpl SCall (MS ++ " NodeKind :: Set { items : & [ $0 ] , rest : $1 , }") [pp_refs items; bool_tok rest]
  | NDStruct name fields rest =>
      tpl SCall (MS ++ " NodeKind :: Struct { name : $0 , fields : & [ $1 ] , rest : $2 , }")
          [str_lit name SCall; pp_named_refs fields; bool_tok rest]
  | NDMap entries rest =>
      tpl SCall (MS ++ " NodeKind :: Map { entries : & [ $0 ] , rest : $1 , }") [pp_named_refs entries; bool_tok rest]
  end.

Definition pp_node_def (n : node) : list tok :=
  let '(l1, c1, l2, c2) := n_loc n in
  tpl SCall (MS ++ " PatternNode { kind : $0 , parent : $1 , line_start : $2 , col_start : $3 , line_end : $4 , col_end : $5 , }")
      [pp_kind (n_desc n);
       match n_parent n with Some pid => tpl SCall "Some ( & $0 )" [node_ident pid] | None => tpl SCall "None" [] end;
       u32_lit l1; u32_lit c1; u32_lit l2; u32_lit c2].

Definition pp_node_const (n : node) : list tok :=
  tpl SCall ("static $0 : " ++ MS ++ " PatternNode = $1 ;") [node_ident (n_id n); pp_node_def n].

(* ---- the whole expansion (fn expand) ------------------------------------- *)

Definition ALLOW_LIST : string :=
  "unused_assignments , clippy :: neg_cmp_op_on_partial_ord , clippy :: op_ref , clippy :: zero_prefixed_literal , clippy :: bool_comparison , clippy :: redundant_pattern_matching , clippy :: useless_asref".

Definition expand_top (join_ok : bool) (value : list tok) (p : pat) : list tok :=
  let nodes := gen_nodes join_ok p None in
  (* a root `_` asserts nothing, but the asserted expression is still evaluated (once, borrowed) *)
  let assertion := if is_wild p then tpl SCall "let _ = & ( $0 ) ;" [value]
                   else pp_stmt (expand join_ok p (VRoot value)) in
  tpl SCall ("{ # [ allow ( " ++ ALLOW_LIST ++ " ) ] let __assert_struct_result = { use std :: convert :: AsRef as _ ; $0 const __PATTERN_TREE : & " ++ MS ++ " PatternNode = & $1 ; let mut __report = " ++ MS ++ " ErrorReport :: new ( :: std :: env ! ( ""CARGO_MANIFEST_DIR"" ) , :: std :: file ! ( ) , ) ; $2 if ! __report . is_empty ( ) { panic ! ( ""{}"" , __report ) ; } } ; __assert_struct_result }")
      [flat_map pp_node_const nodes; node_ident (pat_id p); assertion].
