(* Extract.v — extraction of the executable model to OCaml.
   Only ExtrOcamlBasic is used (bool, option, list, prod, unit, sumbool mapped to
   OCaml's); nat, N, Z, ascii and string stay Coq inductives and are converted by
   the hand-written driver.  No Extract Constant. *)
From Coq Require Extraction.
From Coq Require Import ExtrOcamlBasic.
From ASModel Require Import Base SetMatch SrcLoc Report PathRes Tokens Ast IR Expand Nodes Print Binders Values Sem Spec Shared Features Parser FrontEnd Display.
From ASProofs Require Import SemP.
Extraction Language OCaml.
From ASModel Require Import SharedT.
Set Extraction KeepSingleton.
Extraction "model.ml"
  SetMatch.set_match_tr SetMatch.set_match SetMatch.brute_force
  SrcLoc.byte_offset_of SrcLoc.span_of SrcLoc.byte_offset_of_old SrcLoc.span_of_old
  SrcLoc.linecol SrcLoc.prefix_len SrcLoc.is_boundary SrcLoc.blen
  Report.error_label Report.node_display Report.fallback_display
  PathRes.absolute_source_path PathRes.absolute_source_path_old PathRes.components
  Print.expand_top Nodes.gen_nodes Nodes.location Expand.expand Nodes.node_kind_of Binders.stmt_binders Binders.reserved
  Features.top_refs Features.has_regex Features.compiles_in Features.dispatch_eq Features.macro_regex Features.runtime_regex
  Shared.step Shared.run Shared.cache_get Shared.guard_step Shared.plain_flag Shared.styled SharedT.reports_from
  FrontEnd.front_end_from Parser.counter_after Parser.fuel_for Parser.parse_top Base.N_to_string
  Display.display Display.annotation_of
  Sem.exec Sem.exec_top Spec.frontier Values.debug SemP.pat_ok Report.node_display.
