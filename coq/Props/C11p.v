(* C11 (parser half) — a pattern form is parsed by the same function, with the same answer, in
 every position.  Statements are about Model/Parser.v (tied to the real parser by the front-end
 correspondence run); syn's expression / path / closure parsers are arbitrary functions. *)
From ASModel Require Import Base Tokens Report Ast Parser.
From ASProofs Require Import UniformP UniformCtxP.


(* Two calls of Pattern::parse on the same remaining tokens (and the same unexpected-token record)
   — whatever fuel is left, whatever the thread-local node counter holds (speculative parses
   advance it) and whatever the enclosing scope is — take the same decisions: both accept or both
   reject, consume the same tokens, leave the same record and build the same tree up to node ids.
   (`sim` relates PFuel to everything; Props/C13.v c13_terminates excludes it for parse_top.) *)
Theorem c11_pattern_parser_is_position_independent : forall regex join_ok parse_expr parse_path parse_closure f f' sc sc' ts c c' u,
  sim Rpat (p_pattern regex join_ok parse_expr parse_path parse_closure f sc {| toks := ts; ctr := c; unx := u |})
           (p_pattern regex join_ok parse_expr parse_path parse_closure f' sc' {| toks := ts; ctr := c'; unx := u |}).
Proof. exact pattern_parser_uniform. Qed.
Print Assumptions c11_pattern_parser_is_position_independent.

(* accepted_alone .. ts p: some call of Pattern::parse on exactly the tokens ts — the root pattern,
   the value of the last field of a struct pattern, the last value of a map pattern — consumes
   them all and builds p.  Then every other call on ts does too, up to ids ... *)
Theorem c11_accepted_in_one_position_accepted_in_all : forall regex join_ok parse_expr parse_path parse_closure ts p, accepted_alone regex join_ok parse_expr parse_path parse_closure ts p ->
  forall f' sc' c', same_or_fuel (p_pattern regex join_ok parse_expr parse_path parse_closure f' sc' {| toks := ts; ctr := c'; unx := None |}) (fun q => erase q = erase p).
Proof. exact accepted_anywhere. Qed.
Print Assumptions c11_accepted_in_one_position_accepted_in_all.

(* ... as the element of a slice pattern `[ ts ]` ... *)
Theorem c11_accepted_as_slice_element : forall regex join_ok parse_expr parse_path parse_closure ts p, accepted_alone regex join_ok parse_expr parse_path parse_closure ts p -> ts <> [] ->
  forall F sc c sp spo spc,
    same_or_fuel (p_pattern regex join_ok parse_expr parse_path parse_closure F sc {| toks := [TTGroup DBracket sp spo spc ts]; ctr := c; unx := None |})
                 (fun q => exists id p', q = PSlice id spo [p'] /\ erase p' = erase p).
Proof. exact accepted_as_slice_element. Qed.
Print Assumptions c11_accepted_as_slice_element.

(* ... as the element of a set pattern `#( ts )`, the one exception being the lone rest marker `..`
   (peek_rest; `..5` and `..=5` are not exceptions) ... *)
Theorem c11_accepted_as_set_element : forall regex join_ok parse_expr parse_path parse_closure ts p, accepted_alone regex join_ok parse_expr parse_path parse_closure ts p -> ts <> [] -> peek_rest ts = false ->
  forall F sc c j hsp sp spo spc,
    same_or_fuel (p_pattern regex join_ok parse_expr parse_path parse_closure F sc {| toks := [TTPunct "#" j hsp; TTGroup DParen sp spo spc ts]; ctr := c; unx := None |})
                 (fun q => exists id s' p', q = PSet id s' false [p'] /\ erase p' = erase p).
Proof. exact accepted_as_set_element. Qed.
Print Assumptions c11_accepted_as_set_element.

(* ... as a positional element of a tuple pattern `( ts )` (tuple variants, Some / Ok / Err use the
   same element loop): the speculative parse succeeds, nothing follows, so the element is positional ... *)
Theorem c11_accepted_as_tuple_element : forall regex join_ok parse_expr parse_path parse_closure ts p, accepted_alone regex join_ok parse_expr parse_path parse_closure ts p -> ts <> [] ->
  forall F sc c sp spo spc,
    same_or_fuel (p_pattern regex join_ok parse_expr parse_path parse_closure F sc {| toks := [TTGroup DParen sp spo spc ts]; ctr := c; unx := None |})
                 (fun q => exists id p', q = PTuple id spo [(None, p')] /\ erase p' = erase p).
Proof. exact accepted_as_tuple_element. Qed.
Print Assumptions c11_accepted_as_tuple_element.

(* ... and as the value of a struct field `name : ts` (named and wildcard structs share the loop). *)
Theorem c11_accepted_as_field_value : forall regex join_ok parse_expr parse_path parse_closure ts p name nsp cj csp, accepted_alone regex join_ok parse_expr parse_path parse_closure ts p -> ts <> [] -> is_keyword name = false ->
  forall F sc c,
    same_or_fuel (p_fields regex join_ok parse_expr parse_path parse_closure F sc {| toks := TTIdent name nsp :: TTPunct ":" cj csp :: ts; ctr := c; unx := None |})
                 (fun r => exists p', r = ([(ONamed name nsp nsp, p')], false) /\ erase p' = erase p).
Proof. exact accepted_as_field_value. Qed.
Print Assumptions c11_accepted_as_field_value.

(* the hypothesis is satisfiable whatever syn's parsers do: `_` is accepted alone (no oracle is consulted) *)
Example c11p_wildcard_accepted_alone : forall regex join_ok parse_expr parse_path parse_closure sp,
  accepted_alone regex join_ok parse_expr parse_path parse_closure [TTIdent "_" sp] (PWild 0).
Proof. exact wildcard_accepted_alone. Qed.
