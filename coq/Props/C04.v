(* C04 — each report entry marks the failed sub-pattern's own source text.
   Run-time half: (line, character column) -> byte offset.  The expansion-time half
   (which tokens anchor a node) is in the second part of this file. *)
From ASModel Require Import Base SrcLoc.
From ASProofs Require Import SrcLocP.
Local Open Scope N_scope.

(* linecol t i is what the compiler records for the character with index i of the
   file: 1-based line, 0-based column counted in characters.  For every Unicode
   text (tabs, CR LF, multi-byte characters anywhere) and every position. *)
Theorem c04_roundtrip : forall t i,
  let '(l, c) := linecol t i in byte_offset_of t l c = prefix_len t i.
Proof. exact roundtrip. Qed.
Print Assumptions c04_roundtrip.

(* a token range [i, j) is marked by exactly its own bytes: non-empty, begins on
   its first character, ends after its last *)
Theorem c04_marked_range : forall t i j, (i < j)%nat -> (j <= List.length t)%nat ->
  let '(ls, cs) := linecol t i in
  let '(le, ce) := linecol t j in
  span_of t ls cs le ce = (prefix_len t i, prefix_len t j).
Proof. exact marked_range_exact. Qed.
Print Assumptions c04_marked_range.

Lemma c04_roundtrip_old_refuted :
  exists t i, let '(l, c) := linecol t i in byte_offset_of_old t l c <> prefix_len t i.
Proof. exact byte_offset_of_old_refuted. Qed.

Example c04_example : linecol [233; 9; 13; 10; 26085; 120] 5 = (2, 1)
                      /\ byte_offset_of [233; 9; 13; 10; 26085; 120] 2 1 = 8.
Proof. split; reflexivity. Qed.
