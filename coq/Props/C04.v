(* C04 — each report entry marks the failed sub-pattern's own source text.
   Run-time half: (line, character column) -> byte offset.  The expansion-time half
   (which tokens anchor a node) is in the second part of this file. *)
From ASModel Require Import Base SrcLoc.
From ASProofs Require Import SrcLocP.
Local Open Scope N_scope.

(* linecol u i is what the compiler records for the character with index i of the
   text u it sees: 1-based line, 0-based column counted in characters.  What it sees
   of a file t is strip_bom t (a leading byte-order mark is dropped before positions
   are assigned); what is read back at run time is t itself.  For every Unicode text
   (tabs, CR LF, multi-byte characters anywhere, with or without a byte-order mark)
   and every position: the offset is the one of that character in the file. *)
Theorem c04_roundtrip : forall t i,
  let '(l, c) := linecol (strip_bom t) i in byte_offset_of t l c = bom_len t + prefix_len (strip_bom t) i.
Proof. exact roundtrip. Qed.
Print Assumptions c04_roundtrip.

(* the same for a file without a byte-order mark (every file of the repository's own suite) *)
Theorem c04_roundtrip_plain : forall t i, starts_bom t = false ->
  let '(l, c) := linecol t i in byte_offset_of t l c = prefix_len t i.
Proof. exact roundtrip_plain. Qed.
Print Assumptions c04_roundtrip_plain.

(* a token range [i, j) is marked by exactly its own bytes: non-empty, begins on
   its first character, ends after its last *)
Theorem c04_marked_range : forall t i j, (i < j)%nat -> (j <= List.length (strip_bom t))%nat ->
  let '(ls, cs) := linecol (strip_bom t) i in
  let '(le, ce) := linecol (strip_bom t) j in
  span_of t ls cs le ce = (bom_len t + prefix_len (strip_bom t) i, bom_len t + prefix_len (strip_bom t) j).
Proof. exact marked_range_exact. Qed.
Print Assumptions c04_marked_range.

(* record of the second repair ("fix: a leading byte-order mark is not counted in the columns of the first
   line"): the computation without that step marks the wrong character on the first line of such a file *)
Lemma c04_roundtrip_without_bom_step_refuted :
  exists t i, let '(l, c) := linecol (strip_bom t) i in byte_offset_core t l c <> bom_len t + prefix_len (strip_bom t) i.
Proof. exact byte_offset_core_refuted. Qed.

Lemma c04_roundtrip_old_refuted :
  exists t i, let '(l, c) := linecol t i in byte_offset_of_old t l c <> prefix_len t i.
Proof. exact byte_offset_of_old_refuted. Qed.

Example c04_example : linecol [233; 9; 13; 10; 26085; 120] 5 = (2, 1)
                      /\ byte_offset_of [233; 9; 13; 10; 26085; 120] 2 1 = 8.
Proof. split; reflexivity. Qed.

(* `<BOM>é=` then a second line: the `=` is line 1 column 1 for the compiler and byte 5 of the file; the `y` on
   line 2 is not moved twice *)
Example c04_example_bom : linecol (strip_bom [65279; 233; 61; 10; 121]) 1 = (1, 1)
                          /\ byte_offset_of [65279; 233; 61; 10; 121] 1 1 = 5
                          /\ byte_offset_of [65279; 233; 61; 10; 121] 2 0 = 7.
Proof. repeat split; reflexivity. Qed.

(* ---- expansion-time half: which tokens anchor a node (Nodes.location mirrors
   Pattern::location; it is compared with the real one through the token-exact expander
   correspondence, and with the generator's own record of where it wrote every
   sub-pattern on every run) ------------------------------------------------------- *)
From ASModel Require Import Tokens Report Ast Nodes.
From ASProofs Require Import LocP.

(* a leaf is marked from the start of its first token to the end of its last token; under a
   stable rustc (Span::join unavailable) to the end of its first token: in both cases the
   range starts on the pattern's first token and stays inside the pattern *)
Theorem c04_leaf_anchor_joined : forall id e t r,
  u_toks e = t :: r -> tok_span t <> SCall -> tok_span (last r t) <> SCall ->
  location true (PSimple id e) = mkloc (span_start (tok_span t)) (span_end (tok_span (last r t))).
Proof. exact location_leaf_joined. Qed.
Print Assumptions c04_leaf_anchor_joined.

Theorem c04_leaf_anchor_unjoined : forall id e t r,
  u_toks e = t :: r -> location false (PSimple id e) = mkloc (span_start (tok_span t)) (span_end (tok_span t)).
Proof. exact location_leaf_unjoined. Qed.
Print Assumptions c04_leaf_anchor_unjoined.

(* composites are anchored on their own opening token or path, never on a child *)
Theorem c04_composite_anchor : forall j id sp rest elems entries path r fields a b,
  p_first path = Some a -> p_last path = Some b ->
  location j (PSlice id sp elems) = mkloc (span_start sp) (span_end sp) /\
  location j (PTuple id sp (map (fun p => (None, p)) elems)) = mkloc (span_start sp) (span_end sp) /\
  location j (PSet id sp rest elems) = mkloc (span_start sp) (span_end sp) /\
  location j (PMap id sp rest entries) = mkloc (span_start sp) (span_end sp) /\
  location j (PStruct id (Some path) r fields) = mkloc (span_start a) (span_end b) /\
  location j (PEnum id path (map (fun p => (None, p)) elems)) = mkloc (span_start a) (span_end b).
Proof. exact location_composites. Qed.
Print Assumptions c04_composite_anchor.

(* recorded finding C04-range-from-a-helper-body-to-its-caller, as the model has it: a range pattern whose low bound is written in the body of
   a macro_rules! helper (line 3) and whose high bound is supplied by the helper's caller (line 40).  Under a stable rustc (join unavailable)
   the location runs from the start of the one to the end of the other - over everything that stands between the two places *)
Local Open Scope string_scope.
Lemma known_c04_range_from_a_helper_body_to_its_caller :
  let lit s sp := {| u_text := s; u_strlit := false; u_span := sp; u_toks := [TLit s sp] |} in
  let lo := lit "50" (SPos 3 71 3 73) in
  let hi := lit "60" (SPos 40 4 40 6) in
  let whole := {| u_text := "50 ..= 60"; u_strlit := false; u_span := SPos 3 71 3 73; u_toks := [TLit "50" (SPos 3 71 3 73)] |} in
  location false (PRange 1 whole (Some (Some lo, SPos 3 74 3 77, true, Some hi))) = (3, 71, 40, 6)%N.
Proof. vm_compute. reflexivity. Qed.

