(* C02 — a matching value never fails the assertion. *)
From ASModel Require Import Base Tokens Report Ast IR Expand SetMatch Values Nodes Sem Spec.
Local Open Scope string_scope.
Local Open Scope list_scope.
From ASProofs Require Import SemP CorollariesP Examples.
From Coq Require Import Permutation.

Theorem c02_sat_implies_pass : forall j p e en v t,
  pat_ok (e_units en) p = true ->
  eval en e = Some (v, t) ->
  sat (e_caller en) (e_units en) p v ->
  report_of (exec (expand j p e) en) = Some [].
Proof. exact sat_implies_pass. Qed.
Print Assumptions c02_sat_implies_pass.

(* wildcards and bare rest forms place no constraint at all *)
Theorem c02_wildcard : forall c u id v, frontier c u (PWild id) v = Some [].
Proof. exact wild_unconstrained. Qed.
Print Assumptions c02_wildcard.
Theorem c02_wildcard_struct_rest : forall c u id v, frontier c u (PStruct id None true []) v = Some [].
Proof. exact wild_struct_rest_unconstrained. Qed.
Print Assumptions c02_wildcard_struct_rest.
Theorem c02_set_rest_only : forall c u id sp v vs,
  elements_of v = Some vs -> frontier c u (PSet id sp true []) v = Some [].
Proof. exact set_rest_unconstrained. Qed.
Print Assumptions c02_set_rest_only.
Theorem c02_map_rest_only : forall c u id sp v kvs,
  auto_deref v = VMapV kvs -> frontier c u (PMap id sp true []) v = Some [].
Proof. exact map_rest_unconstrained. Qed.
Print Assumptions c02_map_rest_only.
Theorem c02_slice_rest_only : forall c u id sp rid e lim incl v vs,
  elements_of v = Some vs -> frontier c u (PSlice id sp [rest_marker rid e lim incl]) v = Some [].
Proof. exact slice_rest_unconstrained. Qed.
Print Assumptions c02_slice_rest_only.

(* fields omitted under `..` place no constraint *)
Theorem c02_rest_ignores_other_fields : forall c u id path fields n vals vals',
  path_last path = Some n ->
  (forall fp f, In fp fields -> root_field_name (fst fp) = Some f ->
                assoc (field_name_str f) vals = assoc (field_name_str f) vals') ->
  frontier c u (PStruct id (Some path) true fields) (VStructV n vals) =
  frontier c u (PStruct id (Some path) true fields) (VStructV n vals').
Proof. exact struct_rest_ignores_other_fields. Qed.
Print Assumptions c02_rest_ignores_other_fields.

(* listing fields in any order permutes the report and keeps the verdict *)
Theorem c02_field_order : forall c u id path rest fields fields' v r,
  Permutation fields fields' ->
  frontier c u (PStruct id (Some path) rest fields) v = Some r ->
  exists r', frontier c u (PStruct id (Some path) rest fields') v = Some r' /\ Permutation r r'.
Proof. exact struct_field_order. Qed.
Print Assumptions c02_field_order.

(* repeating a field does not change the verdict *)
Theorem c02_repeat_field : forall c u id path rest fields fp v,
  In fp fields ->
  (frontier c u (PStruct id (Some path) rest fields) v = Some [] <->
   frontier c u (PStruct id (Some path) rest (fields ++ [fp])) v = Some []).
Proof. exact struct_repeat_field. Qed.
Print Assumptions c02_repeat_field.

(* non-vacuity: inclusive range end, the only element of [.., x], a map with exactly the
   listed keys, a set that needs backtracking *)
Example c02_boundaries :
  frontier [] [] (PRange 0 (ulit "1..=5") (Some (Some (ulit "1"), SCall, true, Some (ulit "5")))) (VInt 5) = Some [] /\
  frontier [] [] (PSlice 0 SCall [rest_elem 1; PSimple 2 (ulit "7")]) (VVecV [VInt 7]) = Some [] /\
  frontier [] [] (PMap 0 SCall false [(ustr "k", PSimple 1 (ulit "1"))]) (VMapV [(VStr "k", VInt 1)]) = Some [] /\
  frontier [] [] (PSet 0 SCall false [PCmp 1 OpGt SCall (ulit "0"); PSimple 2 (ulit "2")]) (VVecV [VInt 2; VInt 1]) = Some [].
Proof. repeat split; vm_compute; reflexivity. Qed.
