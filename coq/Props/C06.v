(* C06 — a failed assertion is always one ordinary, catchable panic with the report.
   The part a theorem can carry: the spans handed to the renderer satisfy its
   precondition for every source text and every recorded position, and the
   fallback listing has one block per entry.  The renderer itself
   (annotate-snippets) is trusted; see DESIGN.md section 6. *)
From ASModel Require Import Base SrcLoc Report.
From ASProofs Require Import SrcLocP ReportP.
Local Open Scope N_scope.

(* for every text (empty, truncated, edited, any Unicode), every recorded
   quadruple — positions outside the text and line 0 included *)
Theorem c06_spans_safe : forall t ls cs le ce,
  let '(s, e) := span_of t ls cs le ce in
  s < e /\ is_boundary t s = true /\ is_boundary t e = true /\ s <= blen t.
Proof. exact spans_safe. Qed.
Print Assumptions c06_spans_safe.

Theorem c06_offset_is_boundary : forall t line col, is_boundary t (byte_offset_of t line col) = true.
Proof. exact byte_offset_boundary. Qed.
Print Assumptions c06_offset_is_boundary.

Theorem c06_fallback_shape : forall rel e es,
  fallback_display rel (e :: es) =
  String.append "assert_struct! failed:" (string_concat (map (fallback_block rel) (e :: es))).
Proof. exact fallback_shape. Qed.
Print Assumptions c06_fallback_shape.

Theorem c06_fallback_one_block_per_entry : forall rel es,
  List.length (map (fallback_block rel) es) = List.length es.
Proof. exact fallback_blocks_count. Qed.
Print Assumptions c06_fallback_one_block_per_entry.

(* record of the repaired defect: the old computation could hand the renderer an
   offset inside a multi-byte character (which made it panic inside Display) *)
Lemma c06_spans_old_refuted :
  exists t ls cs le ce, let '(s, e) := span_of_old t ls cs le ce in is_boundary t s = false.
Proof. exact span_of_old_unsafe. Qed.

(* non-vacuity: a text with 2-, 3- and 4-byte characters, a position in the
   middle of it, an empty range, and a range outside the text *)
Example c06_example_inside : span_of [233; 26085; 128512; 120; 10; 121] 1 1 1 3 = (2, 9).
Proof. reflexivity. Qed.
Example c06_example_empty_range_widens_to_char : span_of [233; 26085; 120] 1 1 1 1 = (2, 5).
Proof. reflexivity. Qed.
Example c06_example_outside : span_of [120; 10] 7 3 9 9 = (2, 3).
Proof. reflexivity. Qed.
