(* C06 — a failed assertion is always one ordinary, catchable panic with the report.
   The part a theorem can carry: the spans handed to the renderer satisfy its
   precondition for every source text and every recorded position, and the
   fallback listing has one block per entry.  The renderer itself
   (annotate-snippets) is trusted; see DESIGN.md section 6. *)
From ASModel Require Import Base SrcLoc Report Display.
From ASProofs Require Import SrcLocP ReportP DisplayP.
Local Open Scope N_scope.

(* for every text (empty, truncated, edited, any Unicode), every recorded
   quadruple — positions outside the text and line 0 included *)
Theorem c06_spans_safe : forall t ls cs le ce,
  let '(s, e) := span_of t ls cs le ce in
  s < e /\ is_boundary t s = true /\ is_boundary t e = true /\ s <= blen t.
Proof. exact spans_safe. Qed.
Print Assumptions c06_spans_safe.

Theorem c06_offset_is_boundary : forall t line col, is_boundary t (byte_offset_of t line col) = true.
Proof. exact byte_offset_boundary. Qed.
Print Assumptions c06_offset_is_boundary.

Theorem c06_fallback_shape : forall rel e es,
  fallback_display rel (e :: es) =
  String.append "assert_struct! failed:" (string_concat (map (fallback_block rel) (e :: es))).
Proof. exact fallback_shape. Qed.
Print Assumptions c06_fallback_shape.

Theorem c06_fallback_one_block_per_entry : forall rel es,
  List.length (map (fallback_block rel) es) = List.length es.
Proof. exact fallback_blocks_count. Qed.
Print Assumptions c06_fallback_one_block_per_entry.

(* Display for ErrorReport as a whole (Model/Display.v): with a readable source the renderer is handed the whole
   source text, the displayed path, and exactly one annotation per entry, in order, labelled with that entry's label *)
Theorem c06_one_annotation_per_entry : forall st rel src e es,
  display st rel (Some src) (e :: es) = RSnippet st rel src (map (annotation_of src) (e :: es)) /\
  List.length (map (annotation_of src) (e :: es)) = List.length (e :: es) /\
  map an_label (map (annotation_of src) (e :: es)) = map (fun x => entry_label (re_entry x)) (e :: es).
Proof. exact snippet_one_annotation_per_entry. Qed.
Print Assumptions c06_one_annotation_per_entry.

(* the annotation of an entry is a function of that entry and the source alone: neither the other entries, nor their
   order (a missing map key is reported above the values that failed before it), nor earlier reports can move or drop it *)
Theorem c06_annotation_depends_on_its_entry_only : forall src es i,
  nth_error (map (annotation_of src) es) i = option_map (annotation_of src) (nth_error es i).
Proof. exact annotation_depends_on_its_entry_only. Qed.
Print Assumptions c06_annotation_depends_on_its_entry_only.

(* every annotation of every report satisfies the renderer's precondition *)
Theorem c06_annotations_safe : forall src es,
  Forall (fun a => an_start a < an_end a /\ is_boundary src (an_start a) = true /\ is_boundary src (an_end a) = true /\ an_start a <= blen src)
         (map (annotation_of src) es).
Proof. exact annotations_safe. Qed.
Print Assumptions c06_annotations_safe.

(* without a readable source: the fallback listing of the same entries; nothing is written only for an empty report *)
Theorem c06_display_fallback : forall st rel e es,
  display st rel None (e :: es) = RFallback (fallback_display rel (map re_entry (e :: es))).
Proof. exact display_fallback. Qed.
Print Assumptions c06_display_fallback.

Theorem c06_display_nothing_iff_empty : forall st rel src es, display st rel src es = RNothing <-> es = [].
Proof. exact display_nothing_iff. Qed.
Print Assumptions c06_display_nothing_iff_empty.

(* record of the repaired defect: the old computation could hand the renderer an
   offset inside a multi-byte character (which made it panic inside Display) *)
Lemma c06_spans_old_refuted :
  exists t ls cs le ce, let '(s, e) := span_of_old t ls cs le ce in is_boundary t s = false.
Proof. exact span_of_old_unsafe. Qed.

(* non-vacuity: a text with 2-, 3- and 4-byte characters, a position in the
   middle of it, an empty range, and a range outside the text *)
Example c06_example_inside : span_of [233; 26085; 128512; 120; 10; 121] 1 1 1 3 = (2, 9).
Proof. reflexivity. Qed.
Example c06_example_empty_range_widens_to_char : span_of [233; 26085; 120] 1 1 1 1 = (2, 5).
Proof. reflexivity. Qed.
Example c06_example_outside : span_of [120; 10] 7 3 9 9 = (2, 3).
Proof. reflexivity. Qed.
