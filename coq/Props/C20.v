(* C20 — type errors point into the pattern.
   rustc reports a type error on the token it cannot type; where that lands in the user's source
   is decided by the span the macro gave the token.  Proved here, for all patterns, positions and
   depths: the tokens of the code generated for a sub-pattern carry that sub-pattern's own spans
   (never its parent's, a sibling's or — for the generators listed — the call site's), whatever
   the position it is generated for.  Which of those tokens rustc blames for which fault is
   empirical; it is measured under rustc on every run (tools/prop_c20.py). *)
From ASModel Require Import Base Tokens Report Ast IR Expand Parser FrontEnd Blame.
From ASProofs Require Import ParserP BlameP.

(* the statement generated for a pattern carries exactly the spans of that pattern's own tokens *)
Theorem c20_own_spans : forall j p e,
  stmt_panics (expand j p e) = false ->
  match p with
  | PWild _ | PTuple _ _ _ | PSlice _ _ _ | PSet _ _ _ _ | PMap _ _ _ _ | PStruct _ None _ _ => True
  | _ => own_spans (expand j p e) = pat_own_spans j p
  end.
Proof. exact own_spans_of_expansion. Qed.
Print Assumptions c20_own_spans.

(* ... the same spans in every position (the value expression is the only thing a position changes) *)
Theorem c20_position_independent : forall j p e1 e2,
  stmt_panics (expand j p e1) = false -> stmt_panics (expand j p e2) = false ->
  match p with
  | PWild _ | PTuple _ _ _ | PSlice _ _ _ | PSet _ _ _ _ | PMap _ _ _ _ | PStruct _ None _ _ => True
  | _ => own_spans (expand j p e1) = own_spans (expand j p e2)
  end.
Proof. exact own_spans_position_independent. Qed.
Print Assumptions c20_position_independent.

(* ... at any nesting depth: the code of a pattern contains, for every sub-pattern q other than `_`
   and `..`, exactly the code the generator of q produces at the root, for some value expression *)
Theorem c20_every_depth : forall j p, pat_ok p = true -> forall q, In q (sub_pats p) -> generates q ->
  forall e, exists e', contains (expand j p e) (expand j q e').
Proof. exact sub_pattern_code. Qed.
Print Assumptions c20_every_depth.

(* field paths: the value expression built from a written operation chain carries only spans written
   in that chain (the operator position for the macro's `.`/`[`/`*` tokens, each identifier's own
   span), so an unknown field or method or a bad index is reported on the path *)
Theorem c20_field_path_spans : forall o base, incl (vexpr_spans (apply_ops base o)) (vexpr_spans base ++ fop_spans o).
Proof. exact applied_path_spans. Qed.
Print Assumptions c20_field_path_spans.
