(* C18 — the source snippet is found for every crate layout. *)
From ASModel Require Import Base PathRes.
From ASProofs Require Import PathResP.

(* manifest directory = workspace root ++ member path (member empty for a single
   package), file!() = member path ++ source path; every depth, any repetition of
   directory names.  `is_file` is the disk.  Unambiguous layout: among the candidate
   answers (each guess of the workspace root joined with the file string) only the
   true file exists. *)
Theorem c18_resolves_fs : forall (is_file : string -> bool) manifest_dir file ws member src,
  components manifest_dir = ws ++ member ->
  components file = member ++ src ->
  let truth := push (render ws) file in
  is_file truth = true ->
  (forall o, In o (overlaps (ws ++ member) (member ++ src) ++ [0]) ->
             is_file (resolve_with (ws ++ member) file o) = true ->
             resolve_with (ws ++ member) file o = truth) ->
  absolute_source_path is_file manifest_dir file = truth.
Proof. exact resolves_unambiguous. Qed.
Print Assumptions c18_resolves_fs.

Theorem c18_absolute_file : forall (is_file : string -> bool) manifest_dir file,
  is_absolute file = true -> absolute_source_path is_file manifest_dir file = file.
Proof. exact absolute_file_unchanged. Qed.
Print Assumptions c18_absolute_file.

Theorem c18_result_is_candidate : forall (is_file : string -> bool) manifest_dir file,
  exists k, absolute_source_path is_file manifest_dir file =
            push (render (firstn k (components manifest_dir))) file.
Proof. exact result_is_candidate. Qed.
Print Assumptions c18_result_is_candidate.

Lemma c18_repeated_name_old_refuted :
  exists manifest_dir file ws member src,
    components manifest_dir = ws ++ member /\ components file = member ++ src /\
    absolute_source_path_old manifest_dir file <> push (render ws) file.
Proof. exact old_repeated_name_refuted. Qed.

(* non-vacuity: nested member with a repeated directory name *)
Example c18_example_nested :
  absolute_source_path (fun p => String.eqb p "/w/crates/a/a/src/lib.rs"%string) "/w/crates/a/a"%string "crates/a/a/src/lib.rs"%string
  = "/w/crates/a/a/src/lib.rs"%string.
Proof. reflexivity. Qed.
Example c18_example_single_package_named_tests :
  absolute_source_path (fun p => String.eqb p "/x/tests/tests/it.rs"%string) "/x/tests"%string "tests/it.rs"%string = "/x/tests/tests/it.rs"%string.
Proof. reflexivity. Qed.
