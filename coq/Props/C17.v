(* C17 — reports are independent of environment, history and concurrency. *)
From ASModel Require Import Base Shared SharedT PathRes SrcLoc Report Display.
From ASProofs Require Import PathResP SharedP SharedTP ReportDetP.

(* The source cache (SOURCE_CACHE behind a RwLock, read-then-insert) as a transition system:
   any number of threads, each executing cached_source(path) as the atomic steps
   lookup / read file / insert-if-absent, under an ARBITRARY scheduler (a list of thread
   indices), starting from any cache consistent with the files (cold = [], or warm). *)

Theorem c17_no_crosstalk : forall (fs : string -> option string) schedule c0 calls k i,
  cache_ok fs c0 -> Forall (fun k => c_pc k = PStart) calls ->
  nth_error (snd (run fs (c0, calls) schedule)) i = Some k ->
  forall r, c_pc k = PDone r -> r = fs (c_path k).
Proof. exact no_crosstalk. Qed.
Print Assumptions c17_no_crosstalk.

Theorem c17_same_as_alone : forall (fs : string -> option string) schedule c0 calls i k r,
  cache_ok fs c0 -> Forall (fun k => c_pc k = PStart) calls ->
  nth_error (snd (run fs (c0, calls) schedule)) i = Some k -> c_pc k = PDone r ->
  exists k', nth_error (snd (run fs ([], [{| c_path := c_path k; c_pc := PStart |}]) [0; 0; 0])) 0 = Some k' /\
             c_pc k' = PDone r.
Proof. exact same_as_alone. Qed.
Print Assumptions c17_same_as_alone.

(* the cache composed with Display (Model/Display.v): what a thread finally formats is a function of its own source file,
   the renderer choice and its own entries — whatever the schedule, the other threads' files and failures, and the history *)
Theorem c17_report_determined_by_source_choice_and_entries :
  forall (fs : string -> option string) (decode : string -> text) schedule c0 calls i k styled_ rel es out,
  cache_ok fs c0 -> Forall (fun k => c_pc k = PStart) calls ->
  nth_error (snd (run fs (c0, calls) schedule)) i = Some k ->
  rendered_of decode k styled_ rel es = Some out ->
  out = display styled_ rel (option_map decode (fs (c_path k))) es.
Proof. exact report_determined_by_source_choice_and_entries. Qed.
Print Assumptions c17_report_determined_by_source_choice_and_entries.

(* no deadlock: no step waits for another thread; three own steps complete a call *)
Theorem c17_no_deadlock : forall (fs : string -> option string) schedule c0 calls i k,
  cache_ok fs c0 -> Forall (fun k => c_pc k = PStart) calls ->
  nth_error calls i = Some k ->
  3 <= count_occ Nat.eq_dec schedule i ->
  exists k', nth_error (snd (run fs (c0, calls) schedule)) i = Some k' /\
             c_path k' = c_path k /\ c_pc k' = PDone (fs (c_path k)).
Proof. exact call_completes. Qed.
Print Assumptions c17_no_deadlock.

(* the cache never holds anything but file contents, whatever the interleaving *)
Theorem c17_cache_inv : forall (fs : string -> option string) schedule st, inv fs st -> inv fs (run fs st schedule).
Proof. exact cache_inv. Qed.
Print Assumptions c17_cache_inv.

(* the plain-output guard: for EVERY history of guard creations and drops on a thread the flag
   is set exactly while at least one guard is alive *)
Theorem c17_guard_nesting : forall h, plain_flag (fold_left guard_step h 0) = negb (Nat.eqb (live h 0) 0).
Proof. exact guard_flag_iff_live. Qed.
Print Assumptions c17_guard_nesting.

(* colour only when no guard is alive, NO_COLOR is unset and stderr is a terminal *)
Theorem c17_colour_choice : forall g n t, styled g n t = true <-> g = false /\ n = false /\ t = true.
Proof. exact styled_iff. Qed.
Print Assumptions c17_colour_choice.

(* the path the source is read from is absolute whenever CARGO_MANIFEST_DIR is: the working
   directory of the test binary is never consulted *)
Theorem c17_cwd_independent : forall (is_file : string -> bool) manifest_dir file,
  is_absolute manifest_dir = true ->
  is_absolute (absolute_source_path is_file manifest_dir file) = true.
Proof. exact resolved_path_absolute. Qed.
Print Assumptions c17_cwd_independent.

(* non-vacuity: two threads failing in the same file and one in another, cold cache, an
   interleaving in which both same-file threads miss, read and race to insert *)
Example c17_race_example :
  let fs := fun p => if String.eqb p "a.rs"%string then Some "AAA"%string else if String.eqb p "b.rs"%string then Some "BBB"%string else None in
  let calls := [ {| c_path := "a.rs"%string; c_pc := PStart |}; {| c_path := "a.rs"%string; c_pc := PStart |};
                 {| c_path := "b.rs"%string; c_pc := PStart |}; {| c_path := "gone.rs"%string; c_pc := PStart |} ] in
  map c_pc (snd (run fs ([], calls) [0; 1; 2; 0; 1; 3; 1; 0; 2; 3; 2]))
  = [PDone (Some "AAA"%string); PDone (Some "AAA"%string); PDone (Some "BBB"%string); PDone None].
Proof. vm_compute. reflexivity. Qed.

(* the boolean flag the code had before the repair: new; new; drop left it clear with a guard alive *)
Example c17_guard_old_refuted : exists h, live h 0 = 1 /\ fold_left guard_step_old h false = false.
Proof. exact guard_old_refuted. Qed.

(* ---- the files' READABILITY changes while the process runs (Model/SharedT.v): a source file is moved away while it is rewritten,
   comes back; whenever it can be read its text is the same ---- *)

(* under any interleaving and any history of readability, nothing but a file's own text is ever cached, about to be cached or returned *)
Theorem c17_cache_invariant_over_changing_readability : forall content readable schedule t st,
  SharedTP.tinv content st -> SharedTP.tinv content (SharedT.run_from content readable t st schedule).
Proof. exact SharedTP.timed_cache_inv. Qed.
Print Assumptions c17_cache_invariant_over_changing_readability.

(* a failed read leaves no trace in the cache *)
Theorem c17_failed_read_is_not_remembered : forall content readable t c p,
  readable t p = false ->
  step_call (SharedT.fs_at content readable t) c {| c_path := p; c_pc := PRead |} = (c, {| c_path := p; c_pc := PDone None |}).
Proof. exact SharedTP.failed_read_is_not_remembered. Qed.
Print Assumptions c17_failed_read_is_not_remembered.

(* `whatever other assertions failed earlier in the process`: in a history of reports, every report made while its file can be read
   shows that file's text - earlier reports of the same file made while it could not be read change nothing *)
Theorem c17_report_while_readable_ignores_the_history : forall content readable ops t c i p,
  SharedTP.tcache_ok content c -> nth_error ops i = Some p -> readable (S (3 * i + t)) p = true ->
  nth_error (SharedT.reports_from content readable t c ops) i = Some (Some (content p)).
Proof. exact SharedTP.history_reports. Qed.
Print Assumptions c17_report_while_readable_ignores_the_history.

(* and a report made while the file cannot be read shows the cached text if there is one, otherwise nothing (the fallback listing) *)
Theorem c17_report_while_unreadable : forall content readable t c p,
  readable (S t) p = false -> snd (SharedT.report_at content readable t c p) = cache_get p c.
Proof. exact SharedTP.report_while_unreadable. Qed.
Print Assumptions c17_report_while_unreadable.

(* non-vacuity: unreadable, reported, readable again, reported: the second report is the text *)
Example c17_unreadable_then_readable :
  SharedT.reports_from (fun _ => "TEXT"%string) (fun t _ => Nat.leb 3 t) 0 [] ["a.rs"%string; "a.rs"%string] = [None; Some "TEXT"%string].
Proof. exact eq_refl. Qed.
