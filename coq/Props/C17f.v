(* C17 — facts about the source text, regenerated from /repo on every run (gen/RepoFacts.v, tools/repofacts.py): what the
   runtime crate can observe of its process environment, and the state it keeps between assertions.  The transition systems
   of Model/Shared.v (Props/C17.v) have exactly this state and read exactly these inputs; a change that adds an environment
   read or a piece of process-wide / per-thread state makes these statements fail to check. *)
From ASModel Require Import Base.
From ASGen Require Import RepoFacts.
Local Open Scope string_scope.

(* the report can depend on the process environment only through NO_COLOR and whether stderr is a terminal
   (renderer choice, Shared.styled) *)
Theorem c17_environment_reads : runtime_env_reads =
  [("assert-struct/src/error.rs", "var_os NO_COLOR"); ("assert-struct/src/error.rs", "is_terminal &std::io::stderr(")].
Proof. exact eq_refl. Qed.
Print Assumptions c17_environment_reads.

(* the only state that survives an assertion: the per-thread plain-output counter and the process-wide source cache
   (Shared.guard_step / Shared.step) *)
Theorem c17_shared_state : runtime_shared_state =
  [("assert-struct/src/error.rs", "thread_local PLAIN_OUTPUT"); ("assert-struct/src/error.rs", "static SOURCE_CACHE")].
Proof. exact eq_refl. Qed.
Print Assumptions c17_shared_state.
