(* C13 — facts about the source text, regenerated from /repo on every run (gen/RepoFacts.v, tools/repofacts.py): every construct
   of the macro crate that can panic when it is reached while the macro runs.  The no-panic theorems of Props/C13.v are about
   Model/Parser.v and Model/Expand.v, which account for exactly these sites:
     - field.rs `unreachable!` / `unwrap` / `expect` / `panic!` / slicing in FieldOperation::parse, root_field_name and tail_operations
       are the PPanic / None outcomes of Parser.p_field_operation, Ast.root_field_name and Ast.tail_operations, shown unreachable by
       ParserP.v (tree_ok) and expand_no_panic;
     - struct_pattern.rs `wildcard_span.unwrap()` is the PPanic of Parser.p_struct, unreachable because the wildcard branch stores the span;
     - Ident::new / format_ident! are given `__PATTERN_NODE_<n>`, `__assert_struct_f_<field without r#>`, `<prefix><i>`, `__elem_<i>`,
       `__set_pred_<i>`: identifiers by construction (Print.name_str, Print.field_binder_str).
   A change that adds a panicking construct (an unwrap, an index, a byte-offset slice, LitInt::new, ..) makes this statement fail to
   check; the check then looks for an input that reaches it. *)
From ASModel Require Import Base.
From ASGen Require Import RepoFacts.
Local Open Scope string_scope.

Theorem c13_panic_capable_sites_of_the_macro_crate : macro_panic_sites =
  [("assert-struct-macros/src/expand.rs", "Ident::new", "let ident = Ident::new(&format_MACRO("""", id), Span::call_site());");
   ("assert-struct-macros/src/expand.rs", "Ident::new", "Ident::new(");
   ("assert-struct-macros/src/expand.rs", "format_ident!", "let name = quote::format_ident!("""", prefix, i);");
   ("assert-struct-macros/src/expand.rs", "format_ident!", "let name = quote::format_ident!("""", prefix, i);");
   ("assert-struct-macros/src/expand.rs", "format_ident!", "let binding = quote::format_ident!("""", i);");
   ("assert-struct-macros/src/expand.rs", "format_ident!", ".map(|i| quote::format_ident!("""", i))");
   ("assert-struct-macros/src/expand/nodes.rs", "Ident::new", "Ident::new(&format_MACRO("""", node_id), Span::call_site())");
   ("assert-struct-macros/src/expand/nodes.rs", "Ident::new", "let node_ident = Ident::new(&format_MACRO("""", node_id), Span::call_site());");
   ("assert-struct-macros/src/pattern/field.rs", "unreachable!", "0 => unreachable!(""""),");
   ("assert-struct-macros/src/pattern/field.rs", "unwrap", "1 => operations.into_iter().next().unwrap(),");
   ("assert-struct-macros/src/pattern/field.rs", "expect", ".expect("""")");
   ("assert-struct-macros/src/pattern/field.rs", "panic!", "_ => panic!("""", self),");
   ("assert-struct-macros/src/pattern/field.rs", "expect", ".expect("""");");
   ("assert-struct-macros/src/pattern/field.rs", "slice-range", "let mut tail_ops: Vec<_> = operations[..field_access_idx].to_vec();");
   ("assert-struct-macros/src/pattern/field.rs", "index", "let mut tail_ops: Vec<_> = operations[..field_access_idx].to_vec();");
   ("assert-struct-macros/src/pattern/field.rs", "slice-range", "tail_ops.extend_from_slice(&operations[field_access_idx + 1..]);");
   ("assert-struct-macros/src/pattern/field.rs", "index", "tail_ops.extend_from_slice(&operations[field_access_idx + 1..]);");
   ("assert-struct-macros/src/pattern/field.rs", "unwrap", "Some(tail_ops.into_iter().next().unwrap())");
   ("assert-struct-macros/src/pattern/struct_pattern.rs", "unwrap", "wildcard_span.unwrap(),")].
Proof. exact eq_refl. Qed.
Print Assumptions c13_panic_capable_sites_of_the_macro_crate.
