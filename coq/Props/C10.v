(* C10 — set patterns succeed exactly when a one-to-one assignment exists.
   Statements only; every proof is `exact <lemma of Proofs/SetMatchP.v>`. *)
From ASModel Require Import Base SetMatch.
From ASProofs Require Import SetMatchP.
From Coq Require Import Permutation.

(* M has one row per pattern and one column per element; M[p][e] is predicate p's
   answer on element e (predicates are deterministic).  `assigns n f M` says f lists,
   for each pattern in order, a distinct element index < n that the pattern matches. *)

Theorem c10_backtrack_iff : forall n M used, length used = n ->
  backtrack n M used = true <->
  exists f, NoDup f /\
    Forall2 (fun i row => i < n /\ nth i used true = false /\ nth i row false = true) f M.
Proof. exact backtrack_iff. Qed.
Print Assumptions c10_backtrack_iff.

Theorem c10_set_match_iff : forall n rest M,
  set_match n rest M = true <->
  (if rest then length M <= n else length M = n) /\
  exists f, NoDup f /\ Forall2 (fun i row => i < n /\ nth i row false = true) f M.
Proof. exact set_match_iff. Qed.
Print Assumptions c10_set_match_iff.

(* the function the correspondence check runs (verdict + pushed entry + order of
   predicate calls) has the verdict of set_match, and pushes exactly one entry on
   failure and none on success *)
Theorem c10_traced_verdict : forall n rest M,
  fst (set_match_tr n rest M) = SMPass <-> set_match n rest M = true.
Proof. exact set_match_tr_verdict. Qed.
Print Assumptions c10_traced_verdict.

Theorem c10_one_entry : forall n rest M,
  match fst (set_match_tr n rest M) with
  | SMPass => set_match n rest M = true
  | SMFail _ _ => set_match n rest M = false
  end.
Proof. exact set_match_tr_one_entry. Qed.
Print Assumptions c10_one_entry.

Theorem c10_perm_patterns : forall n rest M M',
  Permutation M M' -> set_match n rest M = set_match n rest M'.
Proof. exact set_match_perm_rows. Qed.
Print Assumptions c10_perm_patterns.

(* pi lists, for each new element position, the old position it shows *)
Theorem c10_perm_elements : forall n rest pi M,
  Permutation pi (seq 0 n) -> set_match n rest (permute_cols pi M) = set_match n rest M.
Proof. exact set_match_perm_cols. Qed.
Print Assumptions c10_perm_elements.

(* the brute-force enumeration the correspondence check uses as a second opinion
   is the same specification *)
Theorem c10_brute_force_agrees : forall n rest M, set_match n rest M = brute_force n rest M.
Proof. exact set_match_is_brute_force. Qed.
Print Assumptions c10_brute_force_agrees.

(* Termination: backtrack is a structural Fixpoint on the list of remaining
   patterns, accepted by Coq's guard checker; every call terminates. *)

(* Non-vacuity: a matrix that needs backtracking, one with no assignment although
   every pattern matches something, the length rule on both sides. *)
Example c10_needs_backtracking : set_match 2 false [[true; true]; [true; false]] = true.
Proof. reflexivity. Qed.
Example c10_hall_violation : set_match 3 true [[true; false; false]; [true; false; false]] = false.
Proof. reflexivity. Qed.
Example c10_exact_length : set_match 3 false [[true; true; true]; [true; true; true]] = false
                           /\ set_match 3 true [[true; true; true]; [true; true; true]] = true.
Proof. split; reflexivity. Qed.
