(* C16 — disabling the regex feature removes only regex matching. *)
From ASModel Require Import Base Tokens Report Ast IR Expand Features Parser FrontEnd.
From ASProofs Require Import FeaturesP.
From ASGen Require Import RepoFacts.

(* repo_wiring, runtime_gates, macro_gates are regenerated from /repo's two Cargo.toml files and
   sources on every run (tools/repofacts.py); this file is re-checked against them. *)

(* with the wiring found in /repo now, the macro crate has its regex feature in BOTH configurations
   a dependent crate can select, so parser and expander are the same function in both *)
Theorem c16_macro_feature_constant :
  macro_regex repo_wiring DefaultOff = true /\ macro_regex repo_wiring DefaultOn = true.
Proof. exact repo_macro_regex_constant. Qed.
Print Assumptions c16_macro_feature_constant.

Theorem c16_same_front_end : forall (A : Type) (front_end : bool -> A),
  front_end (macro_regex repo_wiring DefaultOff) = front_end (macro_regex repo_wiring DefaultOn).
Proof. exact repo_same_front_end. Qed.
Print Assumptions c16_same_front_end.

(* the runtime crate's feature follows the configuration *)
Theorem c16_runtime_feature :
  runtime_regex repo_wiring DefaultOn = true /\ runtime_regex repo_wiring DefaultOff = false.
Proof. exact repo_runtime_regex. Qed.
Print Assumptions c16_runtime_feature.

(* only the Regex re-export and the built-in string Like impls are gated in the runtime crate *)
Theorem c16_only_regex_items_gated :
  runtime_gates = [("assert-struct/src/lib.rs", "pub use regex::Regex;");
                   ("assert-struct/src/lib.rs", "mod like_impls {")]%string.
Proof. exact repo_runtime_gates_exact. Qed.
Print Assumptions c16_only_regex_items_gated.

(* every assertion without a regex literal — any pattern, any depth, Like patterns included —
   expands to code all of whose runtime support exists without the feature *)
Theorem c16_regex_free_unaffected : forall j p e,
  has_regex p = false -> compiles_in false (expand j p e) = true.
Proof. exact regex_free_compiles_without_feature. Qed.
Print Assumptions c16_regex_free_unaffected.

(* `=~ "literal"` without the feature: the expansion names an item that does not exist (a compile
   error), it is not accepted with another meaning *)
Theorem c16_literal_rejected_off : forall j id pattern sp e,
  compiles_in false (expand j (PRegex id pattern sp) e) = false.
Proof. exact regex_literal_rejected_without_feature. Qed.
Print Assumptions c16_literal_rejected_off.

Theorem c16_user_like_keeps_working : forall j id x e,
  compiles_in false (expand j (PLike id x) e) = true.
Proof. exact like_pattern_available_without_feature. Qed.
Print Assumptions c16_user_like_keeps_working.

(* the feature is consulted only after `=` `~` *)
Theorem c16_feature_only_after_eq_tilde : forall r1 r2 s,
  s <> Some "~"%char -> dispatch_eq r1 s = dispatch_eq r2 s.
Proof. exact dispatch_eq_feature_only_tilde. Qed.
Print Assumptions c16_feature_only_after_eq_tilde.

(* the regression this must catch: with default-features = false on the edge between the crates
   the macro would lose the feature together with the runtime *)
Theorem c16_wiring_matters :
  let w := {| w_runtime := w_runtime repo_wiring; w_macros := w_macros repo_wiring;
              w_edge_default := false; w_edge_features := w_edge_features repo_wiring |} in
  macro_regex w DefaultOff = false /\ macro_regex w DefaultOn = true /\
  dispatch_eq (macro_regex w DefaultOff) (Some "~"%char) = DErr.
Proof. exact wiring_matters. Qed.
Print Assumptions c16_wiring_matters.

(* the same about the front-end model itself: with the wiring found in /repo, the macro is the same function of
   the invocation's tokens in both configurations a dependent crate can select *)
Theorem c16_same_macro : forall j pe pp pc start ts,
  front_end_from (macro_regex repo_wiring DefaultOff) j pe pp pc start ts =
  front_end_from (macro_regex repo_wiring DefaultOn) j pe pp pc start ts.
Proof. exact same_macro_both_configs. Qed.
Print Assumptions c16_same_macro.

(* and were the macro crate ever built without its feature, `=~` would be a parse error on the `=`, not another meaning *)
Theorem c16_tilde_is_an_error_without_the_macro_feature : forall j pe pp pc f sc st jt sp r,
  toks st = TTPunct "=" jt sp :: r -> peek_punct "=" r = false ->
  p_pattern false j pe pp pc (S f) sc st = PErr sp (ctr st).
Proof. exact tilde_is_an_error_without_the_macro_feature. Qed.
Print Assumptions c16_tilde_is_an_error_without_the_macro_feature.
