(* C07 — user expressions keep their call-site meaning (no identifier capture). *)
From ASModel Require Import Base Tokens Report Ast IR Nodes Expand Print Binders.
From ASProofs Require Import PatInd BindersP.

(* stmt_binders lists every identifier the generated code binds (let statements, match
   arm patterns — including the bindings for the matched struct's fields —, closure
   parameters); reserved = spelled with a leading `__`.  For every pattern, any nesting. *)
Theorem c07_binders_reserved : forall j p e,
  Forall (fun b => reserved b = true) (stmt_binders (expand j p e)).
Proof. exact binders_reserved. Qed.
Print Assumptions c07_binders_reserved.

(* Assumption of the property, stated here: callers do not use identifiers beginning
   with `__`.  Then no caller identifier is ever rebound, so an expression written
   inside a pattern sees the caller's bindings. *)
Theorem c07_no_capture : forall j p e x,
  reserved x = false -> ~ In x (stmt_binders (expand j p e)).
Proof. exact no_capture. Qed.
Print Assumptions c07_no_capture.
