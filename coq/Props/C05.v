(* C05 — the 'got' text is the Debug form of the value that was tested. *)
From ASModel Require Import Base Tokens Report Ast IR Expand SetMatch Values Nodes Sem Spec.
Local Open Scope string_scope.
Local Open Scope list_scope.
From ASProofs Require Import SemP CorollariesP ReportP Examples.

(* the entries of the report are those of the specification, whose leaf entries carry the
   very value the test was computed from (TDebug v = format!("{:?}", v)) ... *)
Theorem c05_report_texts : forall j p e en v t fr,
  pat_ok (e_units en) p = true ->
  eval en e = Some (v, t) ->
  frontier (e_caller en) (e_units en) p v = Some fr ->
  report_of (exec (expand j p e) en) = Some fr.
Proof. exact report_is_frontier. Qed.
Print Assumptions c05_report_texts.

Theorem c05_leaf_shows_tested_value : forall id ok v x e,
  leaf id ok v x = Some [e] -> en_node e = id /\ en_actual e = TDebug (peel v) /\ en_expected e = x.
Proof. exact leaf_shows_tested_value. Qed.
Print Assumptions c05_leaf_shows_tested_value.

(* ... and the label shows the stored text verbatim, after a prefix chosen by kind *)
Theorem c05_label_contains_actual : forall k actual expected,
  is_suffix actual (error_label k actual expected) = true.
Proof. exact label_ends_with_actual. Qed.
Print Assumptions c05_label_contains_actual.

(* non-vacuity: siblings of the same type with different content; the entry for the
   second element shows the second element *)
Example c05_sibling_not_confused :
  option_map (map en_actual) (run (PSlice 0 SCall [PSimple 1 (ulit "1"); PSimple 2 (ulit "2")]) (VVecV [VInt 1; VInt 7]) [])
  = Some [TDebug (VInt 7)].
Proof. vm_compute. reflexivity. Qed.
Example c05_summaries :
  option_map (map en_actual) (run (PMap 0 SCall false [(ustr "z", PWild 1)]) (VMapV [(VStr "a", VInt 1); (VStr "b", VInt 2)]) [])
  = Some [TMapLen 2; TMissingKey] /\
  option_map (map en_actual) (run (PSet 0 SCall false [PSimple 1 (ulit "9")]) (VVecV [VInt 1; VInt 2; VInt 3]) [])
  = Some [TSetLen 3].
Proof. split; vm_compute; reflexivity. Qed.

(* a slice pattern that fails on shape shows the value at its path, not the slice view it is matched on: for a slice-like
   value that is not a Vec (slice::Iter, a user type with as_slice()) the two print differently *)
Example c05_slice_shape_failure_shows_the_value_not_its_slice_view :
  option_map (map (fun e => match en_actual e with TDebug v => debug v | _ => ""%string end))
             (run (PSlice 0 SCall [PSimple 1 (ulit "1"); PSimple 2 (ulit "2")]) (VViewV "Iter" [VInt 1; VInt 2; VInt 3]) [])
  = Some ["Iter([1, 2, 3])"%string].
Proof. vm_compute. reflexivity. Qed.
