(* C14 — accepted input yields a well-formed, reproducible expansion.
   First half: the node table generated from a Pattern tree.  Second half: the ids themselves
   (the parser's thread-local counter), for every token list, fuel and behaviour of syn's parsers. *)
From ASModel Require Import Base Tokens Report Ast IR Expand Nodes Parser FrontEnd.
From ASModel Require Import Print.
From ASProofs Require Import PatInd NodesP IdsP BalanceP HolesP.
Local Open Scope string_scope.
Local Open Scope list_scope.

(* one constant per node, in post-order: the ids defined are exactly the ids of the
   tree (a `..` inside a slice is a flag of its parent, not a node) *)
Theorem c14_defs_exactly_once : forall j p parent, map n_id (gen_nodes j p parent) = node_ids p.
Proof. exact gen_nodes_ids. Qed.
Print Assumptions c14_defs_exactly_once.

(* every node the assertion code refers to is defined *)
Theorem c14_refs_defined : forall j p e, incl (stmt_refs (expand j p e)) (node_ids p).
Proof. exact expand_refs_defined. Qed.
Print Assumptions c14_refs_defined.

(* the tree mirrors the pattern: the node of a pattern carries its id, the parent it
   was generated under and its own source position ... *)
Theorem c14_node_of_pattern : forall j p parent,
  exists pre nd, gen_nodes j p parent = pre ++ [nd] /\
                 n_id nd = pat_id p /\ n_parent nd = parent /\ n_loc nd = location j p.
Proof. exact gen_nodes_last. Qed.
Print Assumptions c14_node_of_pattern.

(* ... lists its children in written order, with the rest flag as written ... *)
Theorem c14_children_and_rest : forall j p parent,
  exists pre nd, gen_nodes j p parent = pre ++ [nd] /\
                 desc_children (n_desc nd) = map pat_id (node_children p) /\
                 desc_rest (n_desc nd) = pat_rest p.
Proof. exact gen_nodes_root_desc. Qed.
Print Assumptions c14_children_and_rest.

(* ... and every child's node links back to it *)
Theorem c14_parent_links : forall j p parent c,
  In c (node_children p) ->
  exists pre nd post, gen_nodes j p parent = pre ++ nd :: post /\
                      n_id nd = pat_id c /\ n_parent nd = Some (pat_id p).
Proof. exact gen_nodes_child_parent. Qed.
Print Assumptions c14_parent_links.

(* ---- the ids (Parser.v) ---------------------------------------------------------------- *)

(* the nodes of every accepted tree have pairwise distinct ids: the counter only grows, through
   speculative parses (fork) and failed parses too, and every node takes a fresh value *)
Theorem c14_ids_distinct : forall regex join_ok parse_expr parse_path parse_closure fuel start ts v p,
  parse_top_from regex join_ok parse_expr parse_path parse_closure fuel start ts = TOk v p -> NoDup (node_ids p).
Proof. exact parsed_ids_distinct. Qed.
Print Assumptions c14_ids_distinct.

(* hence every node is defined exactly once: the generated constants have pairwise distinct names *)
Theorem c14_defined_exactly_once : forall regex join_ok parse_expr parse_path parse_closure fuel start ts v p parent,
  parse_top_from regex join_ok parse_expr parse_path parse_closure fuel start ts = TOk v p ->
  NoDup (map n_id (gen_nodes join_ok p parent)).
Proof. exact node_constants_distinct. Qed.
Print Assumptions c14_defined_exactly_once.

(* the counter never decreases, whatever the outcome of a (possibly speculative) pattern parse *)
Theorem c14_counter_monotone : forall regex join_ok parse_expr parse_path parse_closure f,
  cmono (p_pattern regex join_ok parse_expr parse_path parse_closure f).
Proof. exact cmono_p_pattern. Qed.
Print Assumptions c14_counter_monotone.

(* the expansion is a function of the invocation's tokens alone: whatever value earlier invocations on the
   thread left in the counter (accepted, rejected, or abandoned half-way), the result is the same *)
Theorem c14_history_independent : forall regex join_ok parse_expr parse_path parse_closure c1 c2 ts,
  front_end_from regex join_ok parse_expr parse_path parse_closure c1 ts =
  front_end_from regex join_ok parse_expr parse_path parse_closure c2 ts.
Proof. exact front_end_history_independent. Qed.
Print Assumptions c14_history_independent.

(* ---- a necessary part of "syntactically valid Rust": the generated code is well bracketed -------
   In the exact token sequence of the expansion (Print.expand_top: what the real expansion is compared with,
   token by token, on every run) every opening delimiter is closed by a delimiter of the same kind, in order
   — for every pattern and value expression whose own token lists are (they are flattened token trees: a
   lexer produces no others). *)
Theorem c14_expansion_well_bracketed : forall j value p,
  balanced value -> pat_toks_ok p -> balanced (expand_top j value p).
Proof. exact expansion_well_bracketed. Qed.
Print Assumptions c14_expansion_well_bracketed.

(* ---- another necessary part: the expression under test is always spliced as a complete operand ------
   It is an arbitrary Rust expression (a struct literal, a binary or cast expression, a range, a closure ...).
   Every template of Print.v splices it immediately between an opening delimiter or argument comma and a closing
   delimiter or argument comma (so no operator of the template can capture part of it, and no position that
   forbids struct literals is used: findings F13, F15), and the holes that are not delimited (the prefix / postfix
   wrappers of field operations) never receive it bare. *)
Theorem c14_delimiting_template_means_between_delimiters : forall sp t args k,
  tpl_delimits t k = true ->
  forall ws1 w ws2, split_on " " t = ws1 ++ w :: ws2 -> hole_word k w = true ->
  exists pre a b post,
    tpl sp t args = pre ++ [a] ++ nth k args [] ++ [b] ++ post /\ open_tok sp a /\ close_tok sp b.
Proof. exact tpl_delimits_tokens. Qed.
Print Assumptions c14_delimiting_template_means_between_delimiters.

Theorem c14_every_statement_template_delimits_the_value : forall s st e,
  stmt_site s = Some (st, e) -> site_ok st (pp_vexpr e) (stmt_printed s).
Proof. exact stmt_site_ok. Qed.
Print Assumptions c14_every_statement_template_delimits_the_value.

Theorem c14_map_lookup_is_an_argument_of_its_statement : forall sp e k body missing,
  pp_stmt (SMapGet sp e k body missing) =
  tpl sp "match $0 { Some ( __map_value ) => { $1 } None => { $2 } }" [mapget_get sp e k; pp_stmt body; pp_push missing].
Proof. exact mapget_outer. Qed.
Print Assumptions c14_map_lookup_is_an_argument_of_its_statement.

Theorem c14_every_report_argument_delimits_the_value : forall sp a st e,
  actual_site sp a = Some (st, e) -> site_ok st (pp_vexpr e) (pp_actual a).
Proof. exact actual_site_ok. Qed.
Print Assumptions c14_every_report_argument_delimits_the_value.

Theorem c14_field_access_delimits_the_value : forall x f,
  site_ok (SCall, "( $0 ) . $1", [pp_vexpr x; pp_field_name f], 0) (pp_vexpr x) (pp_vexpr (VField x f)).
Proof. exact field_site_ok. Qed.
Print Assumptions c14_field_access_delimits_the_value.

(* every value any statement of the expansion is handed is the asserted expression itself (which the statement's
   template delimits) or an expression in which it occurs only as the operand of `( e ) . field` *)
Theorem c14_asserted_expression_is_never_spliced_bare : forall j p toks,
  Forall value_ok (stmt_values (expand j p (VRoot toks))).
Proof. exact asserted_expression_values. Qed.
Print Assumptions c14_asserted_expression_is_never_spliced_bare.
