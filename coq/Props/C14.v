(* C14 — accepted input yields a well-formed, reproducible expansion.
   (Uniqueness of the ids themselves and independence from earlier invocations are
   statements about the parser's counter; they are in the second half of this file
   once Model/Parser.v is in the build, and are checked on the real parser by the
   correspondence run meanwhile.) *)
From ASModel Require Import Base Tokens Report Ast IR Expand Nodes.
From ASProofs Require Import PatInd NodesP.

(* one constant per node, in post-order: the ids defined are exactly the ids of the
   tree (a `..` inside a slice is a flag of its parent, not a node) *)
Theorem c14_defs_exactly_once : forall j p parent, map n_id (gen_nodes j p parent) = node_ids p.
Proof. exact gen_nodes_ids. Qed.
Print Assumptions c14_defs_exactly_once.

(* every node the assertion code refers to is defined *)
Theorem c14_refs_defined : forall j p e, incl (stmt_refs (expand j p e)) (node_ids p).
Proof. exact expand_refs_defined. Qed.
Print Assumptions c14_refs_defined.

(* the tree mirrors the pattern: the node of a pattern carries its id, the parent it
   was generated under and its own source position ... *)
Theorem c14_node_of_pattern : forall j p parent,
  exists pre nd, gen_nodes j p parent = pre ++ [nd] /\
                 n_id nd = pat_id p /\ n_parent nd = parent /\ n_loc nd = location j p.
Proof. exact gen_nodes_last. Qed.
Print Assumptions c14_node_of_pattern.

(* ... lists its children in written order, with the rest flag as written ... *)
Theorem c14_children_and_rest : forall j p parent,
  exists pre nd, gen_nodes j p parent = pre ++ [nd] /\
                 desc_children (n_desc nd) = map pat_id (node_children p) /\
                 desc_rest (n_desc nd) = pat_rest p.
Proof. exact gen_nodes_root_desc. Qed.
Print Assumptions c14_children_and_rest.

(* ... and every child's node links back to it *)
Theorem c14_parent_links : forall j p parent c,
  In c (node_children p) ->
  exists pre nd post, gen_nodes j p parent = pre ++ nd :: post /\
                      n_id nd = pat_id c /\ n_parent nd = Some (pat_id p).
Proof. exact gen_nodes_child_parent. Qed.
Print Assumptions c14_parent_links.
