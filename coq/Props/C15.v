(* C15 — malformed patterns are rejected, not reinterpreted.
   Statements about Parser.v (the parser of pattern.rs and pattern/*.rs, rule for rule); syn's
   own expression / path / closure parsers are parameters, so everything holds whatever they do. *)
From ASModel Require Import Base Tokens Report Ast IR Expand Parser FrontEnd Grammar.
From ASProofs Require Import ParserP RejectP GrammarP.

(* --- the rejection mechanism: nothing that is left unconsumed is ever accepted --------- *)

(* a delimited group whose content the rule that opened it left partly unconsumed records it ... *)
Theorem c15_group_leftover_recorded : forall A d (body : M A) sc st g st',
  in_group d body sc st = POk g st' ->
  forall d' sp spo spc inner r, toks st = TTGroup d' sp spo spc inner :: r ->
  forall a stb, body spc {| toks := inner; ctr := ctr st; unx := unx st |} = POk a stb ->
  toks stb <> [] -> unx st' <> None.
Proof. exact (@in_group_leftover). Qed.
Print Assumptions c15_group_leftover_recorded.

(* ... nothing the parser does afterwards clears the record (thirteen mutually recursive
   functions, any fuel, any nesting) ... *)
Theorem c15_record_never_cleared : forall regex join_ok parse_expr parse_path parse_closure f sc st u p st',
  unx st = Some u -> p_pattern regex join_ok parse_expr parse_path parse_closure f sc st = POk p st' -> unx st' = Some u.
Proof. exact pattern_keeps_record. Qed.
Print Assumptions c15_record_never_cleared.

(* ... and the invocation is accepted only with no record and no token left at top level
   ("tokens trailing a complete pattern") *)
Theorem c15_accepted_means_consumed : forall regex join_ok parse_expr parse_path parse_closure fuel start ts v p,
  parse_top_from regex join_ok parse_expr parse_path parse_closure fuel start ts = TOk v p ->
  exists st', (v0 <- p_expr parse_expr ;; p_punct "," ;;; q <- p_pattern regex join_ok parse_expr parse_path parse_closure fuel ;; ret (eo_u v0, q))
                SCall {| toks := ts; ctr := 0%N; unx := None |} = POk (v, p) st' /\ unx st' = None /\ toks st' = [].
Proof. exact top_rejects. Qed.
Print Assumptions c15_accepted_means_consumed.

(* --- `..` anywhere but last: the struct, map and set loops stop at `..` and leave whatever
       follows in the group, where the mechanism above rejects it --------------------------- *)

Theorem c15_struct_loop_stops_at_rest : forall regex join_ok parse_expr parse_path parse_closure f sc st,
  toks st <> [] -> peek_punct ".." (toks st) = true ->
  p_fields regex join_ok parse_expr parse_path parse_closure (S f) sc st = POk ([], true) (skip2 st).
Proof. exact fields_stop_at_rest. Qed.
Print Assumptions c15_struct_loop_stops_at_rest.

Theorem c15_map_loop_stops_at_rest : forall regex join_ok parse_expr parse_path parse_closure f sc st,
  toks st <> [] -> peek_punct ".." (toks st) = true ->
  p_map_entries regex join_ok parse_expr parse_path parse_closure (S f) sc st = POk ([], true) (skip2 st).
Proof. exact map_stops_at_rest. Qed.
Print Assumptions c15_map_loop_stops_at_rest.

(* in a set pattern `..` is the rest marker only when it stands alone (`..5`, `..=5` are range patterns there as
   everywhere else); exactly one comma may follow a leading marker *)
Theorem c15_set_loop_stops_at_rest : forall regex join_ok parse_expr parse_path parse_closure f sc st,
  toks st <> [] -> peek_rest (toks st) = true ->
  exists left, (left = skipn 2 (toks st) \/ left = skipn 1 (skipn 2 (toks st))) /\
    p_set_elems regex join_ok parse_expr parse_path parse_closure (S f) sc st
    = POk ([], true) {| toks := left; ctr := ctr st; unx := unx st |}.
Proof. exact set_stops_at_rest. Qed.
Print Assumptions c15_set_loop_stops_at_rest.

(* --- what every accepted tree satisfies: a wildcard struct has `..`; an element written
       `ops: pattern` inside a tuple / variant pattern has its own position as root index ---- *)
Theorem c15_accepted_tree_shape : forall regex join_ok parse_expr parse_path parse_closure fuel start ts v p,
  parse_top_from regex join_ok parse_expr parse_path parse_closure fuel start ts = TOk v p -> tree_ok p = true.
Proof. exact parse_top_ok. Qed.
Print Assumptions c15_accepted_tree_shape.

(* --- direct rejections ------------------------------------------------------------------ *)

(* `=` followed by neither `=` nor (with the regex feature) `~`: an error on the `=` *)
Theorem c15_eq_disambiguation : forall regex join_ok parse_expr parse_path parse_closure f sc st j sp r,
  toks st = TTPunct "=" j sp :: r ->
  peek_punct "=" r = false -> (regex && peek_punct "~" r = false) ->
  p_pattern regex join_ok parse_expr parse_path parse_closure (S f) sc st = PErr sp (ctr st).
Proof. exact eq_needs_eq_or_tilde. Qed.
Print Assumptions c15_eq_disambiguation.

(* a closure without exactly one parameter: an error on its parameter list *)
Theorem c15_closure_arity : forall parse_closure sc st c,
  parse_closure (toks st) = OOk c -> co_inputs c <> 1 ->
  p_closure_pat parse_closure sc st = PErr (co_inputs_span c) (ctr st).
Proof. exact closure_needs_one_parameter. Qed.
Print Assumptions c15_closure_arity.

(* an operator without operand: the expression parser's error, where it points *)
Theorem c15_operator_needs_operand : forall join_ok parse_expr sc st o st1 e,
  p_cmp_op join_ok sc st = POk o st1 -> parse_expr (toks st1) = OErr e ->
  p_comparison join_ok parse_expr sc st = PErr (oerr_span e sc) (ctr st1).
Proof. exact operator_needs_operand. Qed.
Print Assumptions c15_operator_needs_operand.

(* --- more than one `..` in a slice: accepted by the macro, and every written `..` becomes a
       `..` of ONE native slice pattern, which rustc rejects (E0: `..` can only be used once
       per slice pattern; checked under rustc on every run) --------------------------------- *)
Theorem c15_slice_rests_lowered : forall j id sp elems e,
  exists parts body pu, expand j (PSlice id sp elems) e = SSlice e parts body pu /\
                        count_rest_parts parts = count_rest_elems elems /\ List.length parts = List.length elems.
Proof. exact slice_rests_lowered. Qed.
Print Assumptions c15_slice_rests_lowered.

(* --- Soundness of the parser with respect to the declarative grammar of Model/Grammar.v ---------
   Whatever the macro accepts DERIVES in the grammar: the token list of the invocation is exactly
   expression `,` pattern, and the pattern's tokens are exactly the constituents of one derivation
   (so no token of an accepted pattern is dropped: every token belongs to a constituent), built by the
   documented rules only.  In that grammar `..` occurs in a struct, map or set pattern only as its last
   token, indexed tuple elements carry their own position, closures have one parameter, `=` is followed
   by `=` or `~`, operators have an operand.  For every token list, fuel and behaviour of syn's parsers. *)
Theorem c15_parser_sound : forall regex join_ok parse_expr parse_path parse_closure fuel start ts v p,
  parse_top_from regex join_ok parse_expr parse_path parse_closure fuel start ts = TOk v p ->
  G_top regex parse_expr parse_path parse_closure ts v p.
Proof. exact parse_top_sound. Qed.
Print Assumptions c15_parser_sound.

Theorem c15_struct_rest_is_last : forall regex parse_expr parse_path parse_closure body fields,
  G_fields regex parse_expr parse_path parse_closure body fields true ->
  exists pre dd, body = (pre ++ dd)%list /\ is_punct ".." dd.
Proof. exact G_fields_rest_last. Qed.
Print Assumptions c15_struct_rest_is_last.

Theorem c15_map_rest_is_last : forall regex parse_expr parse_path parse_closure body entries,
  G_map regex parse_expr parse_path parse_closure body entries true ->
  exists pre dd, body = (pre ++ dd)%list /\ is_punct ".." dd.
Proof. exact G_map_rest_last. Qed.
Print Assumptions c15_map_rest_is_last.

Theorem c15_set_rest_is_last : forall regex parse_expr parse_path parse_closure body elems,
  G_set regex parse_expr parse_path parse_closure body elems true ->
  (exists pre dd, body = (pre ++ dd)%list /\ is_punct ".." dd) \/
  (exists dd comma, body = (dd ++ comma)%list /\ is_punct ".." dd /\ is_punct "," comma /\ elems = []).
Proof. exact G_set_rest_last. Qed.
Print Assumptions c15_set_rest_is_last.
