(* C20 — facts about the source text, regenerated from /repo on every run (gen/RepoFacts.v, tools/repofacts.py): every place of the
   expander that decides which source span GENERATED tokens carry.  A type error in a generated token is reported where that token's
   span points; Model/Blame.v and Model/Print.v give each generated method call, binding and helper the span of the sub-pattern it
   belongs to (theorems of Props/C20.v) and the token-exact correspondence compares the spans of the real expansion with the model's
   on every run.  This inventory is the static side of that tie:
     - each quote_spanned! takes the span named `span` (or `*span` of a field operation, `map_span` of a map), and each `let span = ..`
       takes it from the pattern's own tokens: the struct / variant path, the comparison operand, the range, the literal, the regex
       literal, the Like expression, the closure, the map key, the field name as written;
     - what is made at the call site on purpose: the node statics, `__report`, and the positional bindings `__tuple_elem_i` /
       `__elem_i` / `__set_pred_i`, which never carry a type error of their own (Blame.v: their uses are inside tokens spanned by the
       sub-pattern).
   A change that re-spans generated code (a quote_spanned! turned into quote!, a binding made with format_ident! where the written
   token was used, a span taken from another token) makes this statement fail to check; the check then looks for a type fault whose
   error lands outside the pattern. *)
From ASModel Require Import Base.
From ASGen Require Import RepoFacts.
Local Open Scope string_scope.

Theorem c20_span_sources_of_the_expander : macro_span_sites =
  [("assert-struct-macros/src/expand.rs", "expand", "Ident::new");
   ("assert-struct-macros/src/expand.rs", "expand", "Span::call_site");
   ("assert-struct-macros/src/expand.rs", "expand_struct_assertion", "quote_spanned span");
   ("assert-struct-macros/src/expand.rs", "expand_struct_assertion", "let span = struct_path.span()");
   ("assert-struct-macros/src/expand.rs", "expand_struct_assertion", "quote_spanned span");
   ("assert-struct-macros/src/expand.rs", "field_binding", "let span = field_name .to_token_stream() .into_iter() .next() .map_or_else(Span::call_site,");
   ("assert-struct-macros/src/expand.rs", "field_binding", "Ident::new");
   ("assert-struct-macros/src/expand.rs", "apply_field_operations", "quote_spanned *span");
   ("assert-struct-macros/src/expand.rs", "apply_field_operations", "quote_spanned *span");
   ("assert-struct-macros/src/expand.rs", "apply_field_operations", "quote_spanned *span");
   ("assert-struct-macros/src/expand.rs", "apply_field_operations", "quote_spanned *span");
   ("assert-struct-macros/src/expand.rs", "apply_field_operations", "quote_spanned *span");
   ("assert-struct-macros/src/expand.rs", "apply_field_operations", "quote_spanned *span");
   ("assert-struct-macros/src/expand.rs", "apply_field_operations", "quote_spanned *span");
   ("assert-struct-macros/src/expand.rs", "process_tuple_elements", "format_ident (call site)");
   ("assert-struct-macros/src/expand.rs", "process_tuple_elements", "format_ident (call site)");
   ("assert-struct-macros/src/expand.rs", "expand_comparison_assertion", "let span = expected.span()");
   ("assert-struct-macros/src/expand.rs", "expand_comparison_assertion", "quote_spanned span");
   ("assert-struct-macros/src/expand.rs", "expand_comparison_assertion", "quote_spanned span");
   ("assert-struct-macros/src/expand.rs", "expand_comparison_assertion", "quote_spanned span");
   ("assert-struct-macros/src/expand.rs", "expand_comparison_assertion", "quote_spanned span");
   ("assert-struct-macros/src/expand.rs", "expand_comparison_assertion", "quote_spanned span");
   ("assert-struct-macros/src/expand.rs", "expand_comparison_assertion", "quote_spanned span");
   ("assert-struct-macros/src/expand.rs", "expand_comparison_assertion", "quote_spanned span");
   ("assert-struct-macros/src/expand.rs", "expand_enum_assertion", "let span = variant_path.span()");
   ("assert-struct-macros/src/expand.rs", "expand_enum_assertion", "quote_spanned span");
   ("assert-struct-macros/src/expand.rs", "expand_enum_assertion", "quote_spanned span");
   ("assert-struct-macros/src/expand.rs", "expand_range_assertion", "let span = range.span()");
   ("assert-struct-macros/src/expand.rs", "expand_range_assertion", "quote_spanned span");
   ("assert-struct-macros/src/expand.rs", "expand_string_assertion", "let span = lit.span()");
   ("assert-struct-macros/src/expand.rs", "expand_string_assertion", "quote_spanned span");
   ("assert-struct-macros/src/expand.rs", "expand_simple_assertion", "let span = expected.span()");
   ("assert-struct-macros/src/expand.rs", "expand_simple_assertion", "quote_spanned span");
   ("assert-struct-macros/src/expand.rs", "expand_slice_assertion", "format_ident (call site)");
   ("assert-struct-macros/src/expand.rs", "expand_slice_assertion", "Span::call_site");
   ("assert-struct-macros/src/expand.rs", "expand_regex_assertion", "let span = pattern.span");
   ("assert-struct-macros/src/expand.rs", "expand_regex_assertion", "quote_spanned span");
   ("assert-struct-macros/src/expand.rs", "expand_like_assertion", "let span = pattern_expr.span()");
   ("assert-struct-macros/src/expand.rs", "expand_like_assertion", "quote_spanned span");
   ("assert-struct-macros/src/expand.rs", "expand_closure_assertion", "let span = closure.span()");
   ("assert-struct-macros/src/expand.rs", "expand_closure_assertion", "quote_spanned span");
   ("assert-struct-macros/src/expand.rs", "expand_map_assertion", "let map_span = entries .first() .map(|(key, _)| key.span()) .unwrap_or_else(proc_macro2::Span::");
   ("assert-struct-macros/src/expand.rs", "expand_map_assertion", "quote_spanned map_span");
   ("assert-struct-macros/src/expand.rs", "expand_map_assertion", "let span = key.span()");
   ("assert-struct-macros/src/expand.rs", "expand_map_assertion", "quote_spanned span");
   ("assert-struct-macros/src/expand.rs", "expand_map_assertion", "quote_spanned span");
   ("assert-struct-macros/src/expand.rs", "expand_map_assertion", "quote_spanned span");
   ("assert-struct-macros/src/expand.rs", "expand_set_assertion", "format_ident (call site)");
   ("assert-struct-macros/src/expand.rs", "generate_error_push", "quote_spanned span");
   ("assert-struct-macros/src/expand/nodes.rs", "expand_pattern_node_ident", "Ident::new");
   ("assert-struct-macros/src/expand/nodes.rs", "expand_pattern_node_ident", "Span::call_site");
   ("assert-struct-macros/src/expand/nodes.rs", "generate_pattern_nodes", "Ident::new");
   ("assert-struct-macros/src/expand/nodes.rs", "generate_pattern_nodes", "Span::call_site")].
Proof. exact eq_refl. Qed.
Print Assumptions c20_span_sources_of_the_expander.
