(* C18 — a fact about the source text, regenerated from /repo on every run (gen/RepoFacts.v, tools/repofacts.py): what the run-time
   crate consults of the PROCESS it runs in.  Model/PathRes.v resolves the file to read from the two compile-time strings
   (env!("CARGO_MANIFEST_DIR"), file!()) and the disk alone; the theorems of Props/C18.v are about that function.  They are about the
   code only as long as the code consults nothing else: no environment variable (cargo gives a test process the CARGO_MANIFEST_DIR of
   the package UNDER TEST, which need not be the package that contains the invocation), no current directory, no executable path.
   The two reads that exist belong to the choice of renderer (NO_COLOR, is stderr a terminal: Props/C17f.v).  A change that adds
   std::env::var, current_dir, current_exe, args or temp_dir anywhere in the run-time crate makes this statement fail to check. *)
From ASModel Require Import Base.
From ASGen Require Import RepoFacts.
Local Open Scope string_scope.

Theorem c18_process_inputs_of_the_runtime_crate : runtime_env_reads =
  [("assert-struct/src/error.rs", "var_os NO_COLOR"); ("assert-struct/src/error.rs", "is_terminal &std::io::stderr(")].
Proof. exact eq_refl. Qed.
Print Assumptions c18_process_inputs_of_the_runtime_crate.
