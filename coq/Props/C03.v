(* C03 — every independent mismatch is reported, and nothing else. *)
From ASModel Require Import Base Tokens Report Ast IR Expand SetMatch Values Nodes Sem Spec.
Local Open Scope string_scope.
Local Open Scope list_scope.
From ASProofs Require Import SemP CorollariesP Examples.

(* the report equals the failure frontier, as a list in pattern order: this gives the
   multiset statement, "a failing sibling never hides another", and "no matched
   sub-pattern gets an entry" at once, for any number of simultaneous failures *)
Theorem c03_report_is_frontier : forall j p e en v t fr,
  pat_ok (e_units en) p = true ->
  eval en e = Some (v, t) ->
  frontier (e_caller en) (e_units en) p v = Some fr ->
  report_of (exec (expand j p e) en) = Some fr.
Proof. exact report_is_frontier. Qed.
Print Assumptions c03_report_is_frontier.

(* what the frontier is: a matching composite contributes the concatenation of its
   children's frontiers ... *)
Theorem c03_struct_concat : forall c u id path rest fields v nm n vals,
  path_last path = Some nm -> peel v = VStructV n vals -> String.eqb n nm = true ->
  (rest || forallb (fun fv => existsb (fun fp => match root_field_name (fst fp) with
                                                 | Some f => String.eqb (field_name_str f) (fst fv)
                                                 | None => false end) fields) vals) = true ->
  frontier c u (PStruct id (Some path) rest fields) v = concat_opt (map (spec_field c u vals) fields).
Proof. exact struct_frontier_is_concat. Qed.
Print Assumptions c03_struct_concat.

(* ... a composite whose own shape fails contributes exactly its own entry and nothing below *)
Theorem c03_variant_mismatch : forall c u id path el elems v nm n args,
  path_last path = Some nm -> peel v = VVariantV n args -> String.eqb n nm = false ->
  frontier c u (PEnum id path (el :: elems)) v = Some [mk_entry id (TDebug (peel v)) None].
Proof. exact variant_mismatch_single_entry. Qed.
Print Assumptions c03_variant_mismatch.

Theorem c03_struct_mismatch : forall c u id path rest fields v nm n vals,
  path_last path = Some nm -> peel v = VStructV n vals -> String.eqb n nm = false ->
  frontier c u (PStruct id (Some path) rest fields) v = Some [mk_entry id (TDebug (peel v)) None].
Proof. exact struct_mismatch_single_entry. Qed.
Print Assumptions c03_struct_mismatch.

(* non-vacuity: three simultaneous failures of different kinds and depths — a comparison
   inside Some inside a slice, a set without assignment inside a map value, a string *)
Example c03_three_failures :
  option_map (map en_node) (run P_deep (VStructV "S" [("a", VVariantV "Some" [VVecV [VInt 1; VInt 6]]);
                                                      ("m", VMapV [(VStr "k", VVecV [VInt 1; VInt 3])]);
                                                      ("name", VStr "y")]) []) = Some [4%N; 7%N; 10%N].
Proof. vm_compute. reflexivity. Qed.
