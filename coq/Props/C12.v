(* C12 — exhaustiveness and shape are enforced at compile time.
   The enforcement is rustc's, applied to the native patterns the expansion destructures with.
   What is proved here: those native patterns say exactly what the user wrote — the same field
   names (repetitions aside), `..` if and only if it was written, one positional sub-pattern per
   written element and never a `..` — so rustc's rules (Shape.v: definitional models of
   E0026/E0027 and E0023/E0308, compared with the real compiler on every run) apply to the written
   pattern. *)
From ASModel Require Import Base Tokens Report Ast IR Expand Parser FrontEnd Shape Print.
From ASProofs Require Import ParserP ShapeP.

Theorem c12_struct_checked_as_written : forall j id path rest fields e names r decl,
  lowered_struct (expand j (PStruct id (Some path) rest fields) e) = Some (names, r) ->
  struct_pat_ok decl names r = struct_pat_ok decl (written_roots fields) rest.
Proof. exact struct_pattern_checked_as_written. Qed.
Print Assumptions c12_struct_checked_as_written.

Theorem c12_named_struct_is_destructured : forall j id path rest fields e,
  stmt_panics (expand j (PStruct id (Some path) rest fields) e) = false ->
  exists names, lowered_struct (expand j (PStruct id (Some path) rest fields) e) = Some (names, rest).
Proof. exact named_struct_lowers. Qed.
Print Assumptions c12_named_struct_is_destructured.

(* without `..`, omitting a declared field is rejected ... *)
Theorem c12_omission_rejected : forall decl names d,
  In d decl -> ~ In d names -> struct_pat_ok decl names false = false.
Proof. exact omitted_field_rejected. Qed.
Print Assumptions c12_omission_rejected.

(* ... naming a field that does not exist is rejected with or without `..` ... *)
Theorem c12_unknown_field_rejected : forall decl names rest n,
  In n names -> ~ In n decl -> struct_pat_ok decl names rest = false.
Proof. exact unknown_field_rejected. Qed.
Print Assumptions c12_unknown_field_rejected.

(* ... so `..` is the only way to omit fields *)
Theorem c12_rest_is_the_only_omission : forall decl names,
  struct_pat_ok decl names false = true -> (forall d, In d decl -> In d names) /\ (forall n, In n names -> In n decl).
Proof. exact accepted_without_rest_lists_everything. Qed.
Print Assumptions c12_rest_is_the_only_omission.

(* a wildcard struct pattern without `..` never gets past the parser *)
Theorem c12_wildcard_needs_rest : forall regex join_ok parse_expr parse_path parse_closure fuel start ts v p,
  parse_top_from regex join_ok parse_expr parse_path parse_closure fuel start ts = TOk v p ->
  tree_ok p = true /\ forall id rest fields, p = PStruct id None rest fields -> rest = true.
Proof. exact accepted_wildcard_struct_has_rest. Qed.
Print Assumptions c12_wildcard_needs_rest.

(* tuple and variant patterns: one positional sub-pattern per written element, no `..`: rustc's arity rule applies *)
Theorem c12_tuple_arity : forall j id sp elems e,
  lowered_arity (expand j (PTuple id sp elems) e) = Some (List.length elems).
Proof. exact tuple_pattern_arity. Qed.
Print Assumptions c12_tuple_arity.

(* ... and the tokens printed for those sub-patterns ARE a Rust tuple pattern of that arity (one element included: `( x , )`) *)
Theorem c12_printed_tuple_pattern_has_the_written_arity : forall prefix bs,
  rust_tuple_arity (term_by (Print.comma SCall) (map (Print.pp_binder prefix) bs)) = Some (List.length bs).
Proof. exact printed_tuple_pattern_arity. Qed.
Print Assumptions c12_printed_tuple_pattern_has_the_written_arity.

(* ... with no rest token among them: a `..` written as an element of a tuple / tuple-struct / tuple-variant pattern is never lowered to
   Rust's rest pattern (as the `..` of a slice pattern is), so rustc compares the arity with the declaration exactly *)
Theorem c12_printed_tuple_pattern_has_no_rest : forall prefix bs,
  forallb (fun t => negb (is_dot t)) (term_by (Print.comma SCall) (map (Print.pp_binder prefix) bs)) = true.
Proof. exact printed_tuple_pattern_has_no_rest. Qed.
Print Assumptions c12_printed_tuple_pattern_has_no_rest.

Theorem c12_printed_variant_pattern_has_no_rest : forall sp prefix bs,
  forallb (fun t => negb (is_dot t)) (sep_by (Print.comma sp) (map (Print.pp_binder prefix) bs)) = true.
Proof. exact printed_variant_pattern_has_no_rest. Qed.
Print Assumptions c12_printed_variant_pattern_has_no_rest.

Theorem c12_variant_arity : forall j id path elems e,
  elems <> [] -> lowered_arity (expand j (PEnum id path elems) e) = Some (List.length elems).
Proof. exact variant_pattern_arity. Qed.
Print Assumptions c12_variant_arity.
