(* C01 / C02 / C03, end to end: from the invocation's TOKENS to the report.  (Props/C01.v states the
   same for a given Pattern tree; here the tree is the one the parser builds from the tokens, and it
   derives from those tokens in the grammar of Model/Grammar.v.) *)
From ASModel Require Import Base Tokens Report Ast IR Expand SetMatch Values Nodes Sem Spec Parser FrontEnd Grammar.
From ASProofs Require Import SemP CorollariesP ParserP GrammarP EndToEndP.

Theorem c01_macro_reports_the_frontier : forall regex join_ok parse_expr parse_path parse_closure start ts v p code en val t fr,
  front_end_from regex join_ok parse_expr parse_path parse_closure start ts = FEOk v p code ->
  SemP.pat_ok (e_units en) p = true ->
  eval en (VRoot (u_toks v)) = Some (val, t) ->
  frontier (e_caller en) (e_units en) p val = Some fr ->
  G_top regex parse_expr parse_path parse_closure ts v p /\
  exists tr, exec code en = Some (fr, tr).
Proof. exact macro_reports_the_frontier. Qed.
Print Assumptions c01_macro_reports_the_frontier.

Theorem c01_macro_pass_implies_sat : forall regex join_ok parse_expr parse_path parse_closure start ts v p code en val t fr,
  front_end_from regex join_ok parse_expr parse_path parse_closure start ts = FEOk v p code ->
  SemP.pat_ok (e_units en) p = true ->
  eval en (VRoot (u_toks v)) = Some (val, t) ->
  frontier (e_caller en) (e_units en) p val = Some fr ->
  report_of (exec code en) = Some [] ->
  sat (e_caller en) (e_units en) p val.
Proof. exact macro_pass_implies_sat. Qed.
Print Assumptions c01_macro_pass_implies_sat.

(* ... and for the whole assertion, a root `_` included (it evaluates the asserted expression and reports nothing) *)
Theorem c01_macro_assertion_reports_the_frontier : forall regex join_ok parse_expr parse_path parse_closure start ts v p code en val t fr,
  front_end_from regex join_ok parse_expr parse_path parse_closure start ts = FEOk v p code ->
  SemP.pat_ok (e_units en) p = true ->
  eval en (VRoot (u_toks v)) = Some (val, t) ->
  frontier (e_caller en) (e_units en) p val = Some fr ->
  exists tr, exec_top join_ok p (u_toks v) en = Some (fr, tr).
Proof. exact macro_assertion_reports_the_frontier. Qed.
Print Assumptions c01_macro_assertion_reports_the_frontier.
