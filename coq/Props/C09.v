(* C09 — the asserted value is only borrowed. *)
From ASModel Require Import Base Tokens Report Ast IR Expand Modes.
From ASProofs Require Import PatInd ModesP.

(* stmt_uses lists how every template in the expansion uses the value expression it is
   handed (Modes.v): borrowed (&e, &self methods, format!), inspected (matches! with a
   pattern that binds nothing) or moved (passed / bound by value).  Outside the two
   known-finding forms (closure patterns; identifiers used as values) nothing moves, for
   the root pattern and every nested position.  The IR has no assignment and no `&mut` of
   a user value at all (checked on the real expansion by the correspondence run). *)
Theorem c09_borrow_only : forall j p e,
  by_value_free p = true -> Forall (fun u => u <> UMove) (stmt_uses (expand j p e)).
Proof. exact expansion_never_moves. Qed.
Print Assumptions c09_borrow_only.
