(* C01 — a passing assertion implies the value really matches the pattern. *)
From ASModel Require Import Base Tokens Report Ast IR Expand SetMatch Values Nodes Sem Spec.
Local Open Scope string_scope.
Local Open Scope list_scope.
From ASProofs Require Import SemP CorollariesP Examples LikeP.

(* exec is the meaning of the generated code (Sem.v), expand the expander (Expand.v),
   frontier/sat the documented meaning of the pattern (Spec.v).  `frontier ... = Some fr`
   says the (type, value, pattern) triple is well-typed.  pat_ok holds of every tree the
   parser produces that contains none of the known-finding forms (an identifier used as a
   value; `*` inside a wildcard struct).  For every pattern, any nesting, any combination,
   after any field operations; in any position (e is any value expression). *)
Theorem c01_pass_implies_sat : forall j p e en v t fr,
  pat_ok (e_units en) p = true ->
  eval en e = Some (v, t) ->
  frontier (e_caller en) (e_units en) p v = Some fr ->
  report_of (exec (expand j p e) en) = Some [] ->
  sat (e_caller en) (e_units en) p v.
Proof. exact pass_implies_sat. Qed.
Print Assumptions c01_pass_implies_sat.

(* the master lemma behind C01, C02, C03, C05 *)
Theorem c01_exec_is_spec : forall j p e en v t fr,
  pat_ok (e_units en) p = true ->
  eval en e = Some (v, t) ->
  frontier (e_caller en) (e_units en) p v = Some fr ->
  exists tr, exec (expand j p e) en = Some (fr, tr).
Proof. exact exec_expand_frontier. Qed.
Print Assumptions c01_exec_is_spec.

(* no constraining leaf is vacuous: every comparison can fail for some value of its type *)
Theorem c01_cmp_refutable : forall c u id op osp x k,
  ueval c x = Some (VInt k) ->
  exists en, frontier c u (PCmp id op osp x) (VInt (cmp_witness op k)) = Some [en].
Proof. exact cmp_refutable. Qed.
Print Assumptions c01_cmp_refutable.

(* comparison "by ordering" on a partial order: a value incomparable with the operand (an f64 NaN against any float
   operand) is reported by `<`, `<=`, `>`, `>=` and `==` alike and passes only `!=` — `>=` is not "not <" *)
Theorem c01_incomparable_value_fails_every_ordering_test : forall c u id op osp x k,
  ueval c x = Some (VFloat (Some k)) ->
  (op <> OpNe -> exists en, frontier c u (PCmp id op osp x) (VFloat None) = Some [en]) /\
  (op = OpNe -> frontier c u (PCmp id op osp x) (VFloat None) = Some []).
Proof. exact cmp_incomparable. Qed.
Print Assumptions c01_incomparable_value_fails_every_ordering_test.

(* the known finding: an identifier (or zero-argument call) written as a value is a binding
   that always matches — S { age: expected_age, .. } with expected_age = 31 passes on 30 *)
Lemma known_c01_ident_binding_refuted :
  pat_ok ["None"] P_ident = false /\
  run P_ident V_ident C_ident = Some [] /\
  frontier C_ident ["None"] P_ident V_ident <> Some [].
Proof. split; [vm_compute; reflexivity|split; [vm_compute; reflexivity|vm_compute; discriminate]]. Qed.

(* non-vacuity: a depth-4 pattern; values on and just across each boundary *)
Example c01_example_on_boundary :
  pat_ok ["None"] P_deep = true /\ run P_deep (V_deep 5 "x") [] = Some [].
Proof. split; vm_compute; reflexivity. Qed.
Example c01_example_across_boundary :
  exists e, run P_deep (V_deep 6 "x") [] = Some [e] /\ en_node e = 4%N.
Proof. eexists; split; vm_compute; reflexivity. Qed.
Example c01_leaves_refutable :
  frontier [] [] (PSimple 0 (ulit "5")) (VInt 6) <> Some [] /\
  frontier [] [] (PString 0 """a""" SCall "a") (VStr "b") <> Some [] /\
  frontier [] [] (PRange 0 (ulit "1..=5") (Some (Some (ulit "1"), SCall, true, Some (ulit "5")))) (VInt 6) <> Some [] /\
  frontier [] [] (PEnum 0 (pth "Some") [(None, PWild 1)]) (VVariantV "None" []) <> Some [] /\
  frontier [] [] (PSlice 0 SCall [PWild 1]) (VVecV []) <> Some [] /\
  frontier [] [] (PSet 0 SCall false [PWild 1]) (VVecV []) <> Some [] /\
  frontier [] [] (PMap 0 SCall true [(ustr "k", PWild 1)]) (VMapV []) <> Some [] /\
  frontier [] [] (PRegex 0 "^a" SCall) (VStr "b") <> Some [].
Proof. repeat split; vm_compute; discriminate. Qed.

(* `=~` by the matcher's answer: the built-in Like impls (Model/Like.v: String / &str against &str / String / Regex) all answer
   what the regex engine answers for the compiled pattern, statelessly, and a pattern that does not compile matches nothing *)
Theorem c01_builtin_like_is_the_matchers_answer : forall (regex : Type) compile is_match s p (re : regex), compile p = Some re ->
  Like.like_all regex compile is_match s p = repeat (is_match re s) 6.
Proof. exact LikeP.like_is_the_matchers_answer. Qed.
Print Assumptions c01_builtin_like_is_the_matchers_answer.

Theorem c01_invalid_regex_matches_nothing : forall (regex : Type) compile is_match s p, compile p = None ->
  Like.like_all regex compile is_match s p = repeat false 4.
Proof. exact LikeP.like_invalid_pattern_matches_nothing. Qed.
Print Assumptions c01_invalid_regex_matches_nothing.

(* a wildcard struct's field assertions each read their field from the pattern's own value, whatever the other fields are *)
Theorem c01_wildcard_struct_field_reads_its_own_value : forall j id rest fields e i ops fpat fname,
  nth_error fields i = Some (ops, fpat) -> root_field_name ops = Some fname -> field_name_index_ok fname = true ->
  exists body, expand j (PStruct id None rest fields) e = SSeq body /\
               nth_error body i = Some (with_tail ops (VField e fname) (VRef (VField e fname)) (expand j fpat)).
Proof. exact CorollariesP.wildcard_struct_field_reads_its_own_value. Qed.
Print Assumptions c01_wildcard_struct_field_reads_its_own_value.
