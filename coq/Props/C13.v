(* C13 — the macro front end is total.
   The front end is Parser.parse_top followed by Expand.expand (FrontEnd.front_end).  syn's own
   parsers for expressions, paths and closures are parameters: every theorem below holds for
   EVERY function in their place (so in particular for syn's), for every token list. *)
From ASModel Require Import Base Tokens Report Ast IR Expand Parser FrontEnd.
From ASProofs Require Import ParserP FuelP ErrLocP.

(* The macro never panics: neither the parser (expect / panic! / unreachable! / unwrap in
   field.rs, struct_pattern.rs, tuple.rs) nor the expander (root_field_name, tail_operations,
   syn::Index::from on an index that does not fit in u32) reaches a panic site. *)
Theorem c13_no_panic : forall regex join_ok parse_expr parse_path parse_closure start ts site,
  front_end_from regex join_ok parse_expr parse_path parse_closure start ts <> FEPanic site.
Proof. exact front_end_no_panic. Qed.
Print Assumptions c13_no_panic.

(* the same for the parser alone, with any amount of fuel *)
Theorem c13_parser_no_panic : forall regex join_ok parse_expr parse_path parse_closure fuel start ts site,
  parse_top_from regex join_ok parse_expr parse_path parse_closure fuel start ts <> TPanic site.
Proof. exact parse_top_no_panic. Qed.
Print Assumptions c13_parser_no_panic.

(* every accepted tree is one the expander handles: each field-operation chain has a root
   field and a well-formed tail, every tuple index fits in u32 *)
Theorem c13_accepted_tree_well_formed : forall regex join_ok parse_expr parse_path parse_closure fuel start ts v p,
  parse_top_from regex join_ok parse_expr parse_path parse_closure fuel start ts = TOk v p -> tree_ok p = true.
Proof. exact parse_top_ok. Qed.
Print Assumptions c13_accepted_tree_well_formed.

(* Termination: with fuel 4 * size + 4 (Parser.fuel_for) the parser never runs out of fuel, provided a
   successful parse by one of syn's own parsers takes at least one token and at most those present
   (checked on every table entry of every correspondence run).  Fork-and-reparse makes the number of
   STEPS exponential in the nesting depth (measured: x2 per level of Some(..)); the fuel bounds the
   DEPTH of the recursion, which is what termination needs. *)
Theorem c13_terminates : forall regex join_ok parse_expr parse_path parse_closure,
  (forall ts r, parse_expr ts = OOk r -> 1 <= eo_n r <= List.length ts) ->
  (forall ts r, parse_path ts = OOk r -> 1 <= po_n r <= List.length ts) ->
  (forall ts r, parse_closure ts = OOk r -> 1 <= co_n r <= List.length ts) ->
  forall start ts, front_end_from regex join_ok parse_expr parse_path parse_closure start ts <> FEFuel.
Proof. exact front_end_terminates. Qed.
Print Assumptions c13_terminates.

(* The front end is total: every token stream yields an expansion or a compile error attached to a span *)
Theorem c13_total : forall regex join_ok parse_expr parse_path parse_closure,
  (forall ts r, parse_expr ts = OOk r -> 1 <= eo_n r <= List.length ts) ->
  (forall ts r, parse_path ts = OOk r -> 1 <= po_n r <= List.length ts) ->
  (forall ts r, parse_closure ts = OOk r -> 1 <= co_n r <= List.length ts) ->
  forall start ts,
    (exists v p code, front_end_from regex join_ok parse_expr parse_path parse_closure start ts = FEOk v p code) \/
    (exists sp, front_end_from regex join_ok parse_expr parse_path parse_closure start ts = FEErr sp).
Proof. exact front_end_total. Qed.
Print Assumptions c13_total.

(* Error location: every compile error the front end returns is attached to a span that starts where a token
   of the invocation starts (for a group: where it opens or closes), or to the call site — provided the spans
   syn's own parsers report start where a token of THEIR input starts (checked on every table entry of every
   correspondence run).  "To the offending token where there is one, otherwise to the call." *)
Theorem c13_error_located : forall regex join_ok parse_expr parse_path parse_closure,
  (forall l sp, parse_expr l = OErr (OErrAt sp) -> starts_in l sp) ->
  (forall l r, parse_expr l = OOk r -> (forall u, eo_unx r = Some u -> starts_in l u) /\ starts_in l (u_span (eo_u r))) ->
  (forall l sp, parse_path l = OErr (OErrAt sp) -> starts_in l sp) ->
  (forall l r, parse_path l = OOk r -> forall u, po_unx r = Some u -> starts_in l u) ->
  (forall l sp, parse_closure l = OErr (OErrAt sp) -> starts_in l sp) ->
  (forall l c, parse_closure l = OOk c -> (forall u, co_unx c = Some u -> starts_in l u) /\ starts_in l (co_inputs_span c)) ->
  forall start ts sp,
    front_end_from regex join_ok parse_expr parse_path parse_closure start ts = FEErr sp -> starts_in ts sp.
Proof. exact front_end_error_points_into_invocation. Qed.
Print Assumptions c13_error_located.
