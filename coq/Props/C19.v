(* C19 — what a report says about the pattern is true. *)
From ASModel Require Import Base Tokens Report Ast IR Expand Nodes.
From ASProofs Require Import PatInd NodesP ReportP LabelsP.
Local Open Scope string_scope.

(* `..` is never counted as an element and a partial slice pattern is never called exact:
   the count in the label is the number of written elements other than `..` *)
Theorem c19_slice : forall j id sp elems parent actual,
  exists nd, own_node j (PSlice id sp elems) parent = Some nd /\
    error_label (node_kind_of (n_desc nd)) actual None =
      if has_rest elems then "slice pattern mismatch, got " ++ actual
      else let n := List.length (written_items elems) in
           "expected slice with " ++ nat_to_string n ++ " " ++ (if Nat.eqb n 1 then "element" else "elements")
           ++ ", got " ++ actual.
Proof. exact slice_label. Qed.
Print Assumptions c19_slice.

Theorem c19_set_exact_iff : forall j id sp rest elems parent actual e,
  exists nd, own_node j (PSet id sp rest elems) parent = Some nd /\
    error_label (node_kind_of (n_desc nd)) actual e =
      (if rest then "set pattern mismatch, got " else "set pattern mismatch (exact), got ") ++ actual.
Proof. exact set_label. Qed.
Print Assumptions c19_set_exact_iff.

Theorem c19_variant : forall j id path elems parent actual e,
  exists nd, own_node j (PEnum id path elems) parent = Some nd /\
    error_label (node_kind_of (n_desc nd)) actual e =
      "expected variant " ++ replace_colons (p_text path)
      ++ (match elems with [] => "" | _ => "(...)" end) ++ ", got " ++ actual.
Proof. exact variant_label. Qed.
Print Assumptions c19_variant.

Theorem c19_eq_expected : forall j id osp x e parent actual,
  (exists sp pu, expand j (PCmp id OpEq osp x) e = SCmp sp OpEq e x pu /\ ps_expected pu = EText (u_text x)) /\
  exists nd, own_node j (PCmp id OpEq osp x) parent = Some nd /\
    error_label (node_kind_of (n_desc nd)) actual (Some (u_text x)) = "expected " ++ u_text x ++ ", got " ++ actual.
Proof. exact eq_expected. Qed.
Print Assumptions c19_eq_expected.

Theorem c19_map_expected : forall j id sp entries e,
  exists body, expand j (PMap id sp false entries) e =
    SSeq (SMapLen (match entries with [] => SCall | (k, _) :: _ => expr_span j k end) e (List.length entries)
                  (mk_push (match entries with [] => SCall | (k, _) :: _ => expr_span j k end) id (AMapLen e)
                           (EEntries (List.length entries))) :: body) /\
    Forall2 (fun kv s => exists sp' b, s = SMapGet sp' e (fst kv) b (mk_push sp' id AMissingKey (EKeyPresent (u_text (fst kv)))))
            entries body.
Proof. exact map_expected. Qed.
Print Assumptions c19_map_expected.

(* the label's wording for each shape (Report.v), for every count *)
Theorem c19_label_slice_partial_has_no_count : forall n actual e,
  error_label (KSlice n true) actual e = "slice pattern mismatch, got " ++ actual.
Proof. exact label_slice_partial. Qed.
Print Assumptions c19_label_slice_partial_has_no_count.
