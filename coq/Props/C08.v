(* C08 — expressions are evaluated exactly once; Debug runs only on failure. *)
From ASModel Require Import Base Tokens Report Ast IR Expand SetMatch Values Nodes Sem Spec.
From ASProofs Require OrderP.
From ASProofs Require Import PatInd StmtInd SemP TraceP MethodsP Examples CorollariesP.
Local Open Scope string_scope.
Local Open Scope list_scope.

(* Second half, in full, for every statement of the generated-code IR and so for every
   expansion: the number of Debug formattings performed equals the number of
   Debug-formatted entries in the report — none on the passing path.  (Set predicates run
   against probe reports that are discarded; the property itself sets them aside.) *)
Theorem c08_debug_only_reported : forall s en rep tr,
  exec s en = Some (rep, tr) -> cnt is_debug_ev tr = debug_entries rep.
Proof. exact exec_debug_count. Qed.
Print Assumptions c08_debug_only_reported.

(* The expansion hands its sub-patterns bindings, never the asserted expression: code
   generated for an expression that does not mention the root never evaluates the root. *)
Theorem c08_children_do_not_evaluate_root : forall j p e en rep tr,
  root_free e = true -> exec (expand j p e) en = Some (rep, tr) -> cnt is_root_ev tr = 0.
Proof. exact children_do_not_evaluate_root. Qed.
Print Assumptions c08_children_do_not_evaluate_root.

(* First half.  For every root form other than `_`, maps and wildcard structs: the asserted
   expression is evaluated exactly once whenever the form's own test succeeds — in particular
   on every passing run — and exactly twice when the root form itself is reported (known
   finding: the value shown is then a second evaluation). *)
Theorem c08_root_eval_count : forall j p ts en rep tr,
  once_kind p = true ->
  exec (expand j p (VRoot ts)) en = Some (rep, tr) ->
  cnt is_root_ev tr = 1 \/ (rep <> [] /\ cnt is_root_ev tr = 2).
Proof. exact root_eval_count. Qed.
Print Assumptions c08_root_eval_count.

Theorem c08_root_once_on_pass : forall j p ts en tr,
  once_kind p = true -> exec (expand j p (VRoot ts)) en = Some ([], tr) -> cnt is_root_ev tr = 1.
Proof. exact root_once_on_pass. Qed.
Print Assumptions c08_root_once_on_pass.

(* the whole assertion (Sem.exec_top, fn expand): a root `_` asserts nothing and formats nothing, and the asserted expression is
   evaluated exactly once; every other root pattern is its own expansion (to which the theorems above apply) *)
Theorem c08_root_wildcard_evaluates_once : forall j id ts en,
  exec_top j (PWild id) ts en = Some ([], [EvRoot]).
Proof. exact root_wildcard_evaluates_once. Qed.
Print Assumptions c08_root_wildcard_evaluates_once.

Theorem c08_whole_assertion_is_the_root_expansion : forall j p ts en,
  is_wild p = false -> exec_top j p ts en = exec (expand j p (VRoot ts)) en.
Proof. exact exec_top_is_exec. Qed.
Print Assumptions c08_whole_assertion_is_the_root_expansion.

(* the known classes, one witness each (evaluated in the model; replayed on the real code
   by the check) *)
Definition root_count (p : pat) (v : value) : option nat :=
  roots (exec (expand true p (VRoot [])) (env0 v [])).

Lemma known_c08_leaf_fail_twice : root_count (PCmp 0 OpGt SCall (ulit "5")) (VInt 3) = Some 2.
Proof. vm_compute. reflexivity. Qed.
Lemma known_c08_shape_mismatch_twice :
  root_count (PEnum 0 (pth "Some") [(None, PWild 1)]) (VVariantV "None" []) = Some 2.
Proof. vm_compute. reflexivity. Qed.
(* repaired (fix F18): a root `_` used to expand to nothing, so `assert_struct!(expr(), _)` never evaluated expr() *)
Lemma c08_wildcard_old_zero : root_count (PWild 0) (VInt 3) = Some 0.
Proof. vm_compute. reflexivity. Qed.
Lemma known_c08_wildcard_struct_per_field :
  root_count (PStruct 0 None true [(fld "a", PSimple 1 (ulit "1")); (fld "b", PSimple 2 (ulit "2"))])
             (VStructV "S" [("a", VInt 1); ("b", VInt 2)]) = Some 2.
Proof. vm_compute. reflexivity. Qed.
Lemma known_c08_map_per_entry :
  root_count (PMap 0 SCall false [(ustr "a", PSimple 1 (ulit "1")); (ustr "b", PSimple 2 (ulit "2"))])
             (VMapV [(VStr "a", VInt 1); (VStr "b", VInt 2)]) = Some 3.
Proof. vm_compute. reflexivity. Qed.

(* non-vacuity: passing runs of a named struct and of a set evaluate the root once *)
Example c08_example_once :
  root_count (PStruct 0 (Some (pth "S")) true [(fld "a", PSimple 1 (ulit "1")); (fld "b", PCmp 2 OpGt SCall (ulit "9"))])
             (VStructV "S" [("a", VInt 1); ("b", VInt 2)]) = Some 1 /\
  root_count (PSet 0 SCall false [PSimple 1 (ulit "2"); PSimple 2 (ulit "1")]) (VVecV [VInt 1; VInt 2]) = Some 1.
Proof. split; vm_compute; reflexivity. Qed.

(* ---- method calls written in field-operation chains (Proofs/MethodsP.v) ---- *)

(* evaluating a value expression calls each method written in it exactly once *)
Theorem c08_value_expression_calls_each_written_method_once : forall en e v t,
  eval en e = Some (v, t) -> cnt MethodsP.is_method_ev t = MethodsP.vmethods e.
Proof. exact MethodsP.eval_methods. Qed.
Print Assumptions c08_value_expression_calls_each_written_method_once.

(* on a passing run every statement of an expansion evaluates its own value expression exactly once: the methods called are those
   the statements mention, statement by statement - nothing is evaluated a second time, read back through a temporary, or evaluated
   for a message that is never shown.  (Sets aside: their predicates are probed once per candidate element.) *)
Theorem c08_methods_called_once_per_statement_on_pass : forall s,
  MethodsP.set_free s = true -> forall en tr, exec s en = Some ([], tr) -> cnt MethodsP.is_method_ev tr = MethodsP.sites s.
Proof. exact MethodsP.exec_counts_methods. Qed.
Print Assumptions c08_methods_called_once_per_statement_on_pass.

(* non-vacuity: `S { h.bump(): 5, h.bump(): > 3, .. }` passes and calls the method twice, once per written chain *)
Example c08_example_repeated_chain :
  let bump := OChained SCall [ONamed "h" SCall SCall; OMethod "bump" SCall SCall []] in
  let s := expand true (PStruct 0 (Some (pth "S")) true [(bump, PSimple 1 (ulit "5")); (bump, PCmp 2 OpGt SCall (ulit "3"))]) (VRoot []) in
  MethodsP.set_free s = true /\ MethodsP.sites s = 2 /\
  option_map (fun rt => (fst rt, cnt MethodsP.is_method_ev (snd rt))) (exec s (env0 (VStructV "S" [("h", VInt 5)]) [])) = Some ([], 2).
Proof. vm_compute. repeat split. Qed.

(* the value expression built for a field-operation chain contains exactly the method calls written in the chain (so evaluating it,
   by the theorem above, calls each of them once) *)
Theorem c08_chain_expression_has_the_written_methods : forall o base,
  MethodsP.vmethods (apply_ops base o) = MethodsP.vmethods base + MethodsP.fop_methods o.
Proof. exact MethodsP.vmethods_apply_ops. Qed.
Print Assumptions c08_chain_expression_has_the_written_methods.

(* ---- the ORDER of evaluation (Proofs/OrderP.v).  A count cannot see a reordering; with a stateful receiver the order decides which
   value each pattern tests.  mlist tr = the names of the method calls of a trace in the order they happened. *)

(* a value expression calls its written methods innermost first, each once *)
Theorem c08_value_expression_calls_its_methods_in_written_order : forall en e v t,
  eval en e = Some (v, t) -> OrderP.mlist t = OrderP.vmeths e.
Proof. exact OrderP.eval_mlist. Qed.
Print Assumptions c08_value_expression_calls_its_methods_in_written_order.

(* on a passing run the methods are called statement by statement, in statement order *)
Theorem c08_methods_called_in_statement_order : forall s,
  MethodsP.set_free s = true -> forall en tr, exec s en = Some ([], tr) -> OrderP.mlist tr = OrderP.msites s.
Proof. exact OrderP.exec_methods_in_statement_order. Qed.
Print Assumptions c08_methods_called_in_statement_order.

(* a named struct pattern evaluates the asserted expression, then its fields one after the other in WRITTEN order, whichever root
   fields their chains start from (no grouping by root field, no hoisting) *)
Theorem c08_struct_fields_evaluated_in_written_order : forall j id path rest fields e en tr,
  let s := expand j (PStruct id (Some path) rest fields) e in
  MethodsP.set_free s = true -> exec s en = Some ([], tr) ->
  OrderP.mlist tr = OrderP.vmeths e ++ flat_map (fun fp => OrderP.msites (OrderP.field_stmt j fp)) fields.
Proof. exact OrderP.struct_fields_evaluated_in_written_order. Qed.
Print Assumptions c08_struct_fields_evaluated_in_written_order.

(* the same for a wildcard struct pattern `_ { .. }` and for the entries of an open map pattern *)
Theorem c08_wildcard_struct_fields_evaluated_in_written_order : forall j id rest fields e en tr,
  let s := expand j (PStruct id None rest fields) e in
  MethodsP.set_free s = true -> exec s en = Some ([], tr) ->
  OrderP.mlist tr = flat_map (fun fp => OrderP.msites (OrderP.wfield_stmt j e fp)) fields.
Proof. exact OrderP.wildcard_struct_fields_evaluated_in_written_order. Qed.
Print Assumptions c08_wildcard_struct_fields_evaluated_in_written_order.

Theorem c08_open_map_entries_evaluated_in_written_order : forall j id sp entries e en tr,
  let s := expand j (PMap id sp true entries) e in
  MethodsP.set_free s = true -> exec s en = Some ([], tr) ->
  OrderP.mlist tr = flat_map (fun kv => OrderP.msites (OrderP.entry_stmt j id e kv)) entries.
Proof. exact OrderP.open_map_entries_evaluated_in_written_order. Qed.
Print Assumptions c08_open_map_entries_evaluated_in_written_order.

(* the value expression of a chain has the chain's methods in written order *)
Theorem c08_chain_expression_has_the_written_methods_in_order : forall o base,
  OrderP.vmeths (apply_ops base o) = OrderP.vmeths base ++ OrderP.fop_meths o.
Proof. exact OrderP.vmeths_apply_ops. Qed.
Print Assumptions c08_chain_expression_has_the_written_methods_in_order.

(* non-vacuity: `S { a.len(): 2, b.bump(): 5, a.clone().len(): > 1, .. }` passes and calls len, bump, clone, len - in that order
   (the two chains on `a` are NOT brought together) *)
Example c08_example_interleaved_fields :
  let ch f ms := OChained SCall (ONamed f SCall SCall :: map (fun m => OMethod m SCall SCall []) ms) in
  let s := expand true (PStruct 0 (Some (pth "S")) true
             [(ch "a" ["len"], PSimple 1 (ulit "2")); (ch "b" ["bump"], PSimple 2 (ulit "5")); (ch "a" ["clone"; "len"], PCmp 3 OpGt SCall (ulit "1"))])
             (VRoot []) in
  MethodsP.set_free s = true /\
  option_map (fun rt => (fst rt, OrderP.mlist (snd rt))) (exec s (env0 (VStructV "S" [("a", VStr "xy"); ("b", VInt 5)]) []))
    = Some ([], ["len"; "bump"; "clone"; "len"]).
Proof. vm_compute. split; reflexivity. Qed.

(* a composite whose OWN shape fails (another variant, a length the slice pattern does not fit) reports one entry and evaluates no chain
   and no operand of its children - they are never tested against a value they were not written for; the composite's own value expression
   is evaluated for the test and once more for the message (the recorded finding C08-fail-path-double-eval) *)
Theorem c08_wrong_variant_evaluates_no_child : forall j id path el elems e en rep tr v t n args nm,
  eval en e = Some (v, t) -> path_last path = Some nm -> peel v = VVariantV n args -> String.eqb n nm = false ->
  exec (expand j (PEnum id path (el :: elems)) e) en = Some (rep, tr) ->
  OrderP.mlist tr = OrderP.vmeths e ++ OrderP.vmeths e /\ List.length rep = 1%nat.
Proof. exact OrderP.wrong_variant_evaluates_no_child. Qed.
Print Assumptions c08_wrong_variant_evaluates_no_child.

Theorem c08_wrong_length_slice_evaluates_no_child : forall j id sp elems e en rep tr v t vs,
  eval en e = Some (v, t) -> elements_of v = Some vs ->
  slice_match (mapi (fun i el => if is_rest_range el then SPRest else if is_wild el then SPWild else SPBind i) elems) vs = Some None ->
  exec (expand j (PSlice id sp elems) e) en = Some (rep, tr) ->
  OrderP.mlist tr = OrderP.vmeths e ++ OrderP.vmeths e /\ List.length rep = 1%nat.
Proof. exact OrderP.wrong_length_slice_evaluates_no_child. Qed.
Print Assumptions c08_wrong_length_slice_evaluates_no_child.

(* non-vacuity: `Some(> 3)` applied to `root.clone()` where the root is None: one entry; clone is called for the test and for the message *)
Example c08_example_wrong_variant :
  let e := VMethod SCall (VRoot []) "clone" SCall [] in
  option_map (fun rt => (List.length (fst rt), OrderP.mlist (snd rt)))
    (exec (expand true (PEnum 0 (pth "Some") [(None, PCmp 1 OpGt SCall (ulit "3"))]) e) (env0 (VVariantV "None" []) []))
  = Some (1%nat, ["clone"; "clone"]).
Proof. vm_compute. reflexivity. Qed.

(* recorded finding C08-accept-everything-patterns-evaluate-nothing, as the model has it: a chain in front of a pattern that asserts
   nothing is not evaluated (0 calls of the written method), and `_ { .. }` / `#{ .. }` at the root do not evaluate the root *)
Lemma known_c08_chain_under_wildcard_not_evaluated :
  let bump := OChained SCall [ONamed "h" SCall SCall; OMethod "bump" SCall SCall []] in
  let s := expand true (PStruct 0 (Some (pth "S")) true [(bump, PWild 1)]) (VRoot []) in
  MethodsP.sites s = 0 /\
  option_map (fun rt => (fst rt, cnt MethodsP.is_method_ev (snd rt))) (exec s (env0 (VStructV "S" [("h", VInt 5)]) [])) = Some ([], 0).
Proof. vm_compute. split; reflexivity. Qed.
Lemma known_c08_root_wildcard_struct_and_open_map_not_evaluated :
  roots (exec_top true (PStruct 0 None true []) [] (env0 (VStructV "S" []) [])) = Some 0 /\
  roots (exec_top true (PMap 0 SCall true []) [] (env0 (VMapV []) [])) = Some 0.
Proof. vm_compute. split; reflexivity. Qed.
