(* C06 — facts about the source text, regenerated from /repo on every run: every construct of the run-time support crate that can
   panic (or overflow) when it is reached.  Formatting a report happens inside `panic!`, so a panic there aborts the process.
   The sites and why they are safe:
     - error.rs absolute_source_path: `manifest_components[len - l..]`, `file_components[..l]`, `[..len - overlap]` with l, overlap <=
       min of the two lengths by the loop bounds (Model/PathRes.v is total on all inputs and compared with the code on every run);
     - error.rs byte_offset_of: `(line - 1)` is guarded by the `line == 0` return (SrcLoc.byte_offset_of; c06_offset_is_boundary);
     - error.rs Display: `source[start..]` with start a character boundary <= len (c06_spans_safe, c06_annotations_safe);
     - lib.rs set_backtrack: `matched[i]`, `predicates[pattern_idx](i)` with i < n = matched.len() and pattern_idx < predicates.len()
       (SetMatch.v is structurally recursive over the same ranges).
   A change that adds an unwrap, an index, a slice or a subtraction makes this statement fail to check. *)
From ASModel Require Import Base.
From ASGen Require Import RepoFacts.
Local Open Scope string_scope.

Theorem c06_panic_capable_sites_of_the_runtime_crate : runtime_panic_sites =
  [("assert-struct/src/error.rs", "slice-range", "let suffix = &manifest_components[manifest_components.len() - len..];");
   ("assert-struct/src/error.rs", "index", "let suffix = &manifest_components[manifest_components.len() - len..];");
   ("assert-struct/src/error.rs", "usize-subtraction", "let suffix = &manifest_components[manifest_components.len() - len..];");
   ("assert-struct/src/error.rs", "slice-range", "let prefix = &file_components[..len];");
   ("assert-struct/src/error.rs", "index", "let prefix = &file_components[..len];");
   ("assert-struct/src/error.rs", "slice-range", "let workspace_root: PathBuf = manifest_components[..manifest_components.len() - overlap]");
   ("assert-struct/src/error.rs", "index", "let workspace_root: PathBuf = manifest_components[..manifest_components.len() - overlap]");
   ("assert-struct/src/error.rs", "usize-subtraction", "let workspace_root: PathBuf = manifest_components[..manifest_components.len() - overlap]");
   ("assert-struct/src/error.rs", "usize-subtraction", ".take((line - 1) as usize)");
   ("assert-struct/src/error.rs", "slice-range", "start + source[start..].chars().next().map_or(1, char::len_utf8)");
   ("assert-struct/src/error.rs", "index", "start + source[start..].chars().next().map_or(1, char::len_utf8)");
   ("assert-struct/src/lib.rs", "index", "if !matched[i] && predicates[pattern_idx](i) {");
   ("assert-struct/src/lib.rs", "index", "matched[i] = true;");
   ("assert-struct/src/lib.rs", "index", "matched[i] = false;")].
Proof. exact eq_refl. Qed.
Print Assumptions c06_panic_capable_sites_of_the_runtime_crate.
