(* C11 — a pattern means the same in every position. *)
From ASModel Require Import Base Tokens Report Ast IR Expand SetMatch Values Nodes Sem Spec Modes.
From ASProofs Require Import PatInd SemP CorollariesP ModesP.

(* Verdict half, in full: the report is a function of the value the position yields —
   whatever expression produces it and whatever bindings surround it. *)
Theorem c11_verdict_position_independent : forall j p e1 e2 en1 en2 v t1 t2 fr,
  e_caller en1 = e_caller en2 -> e_units en1 = e_units en2 ->
  pat_ok (e_units en1) p = true ->
  eval en1 e1 = Some (v, t1) -> eval en2 e2 = Some (v, t2) ->
  frontier (e_caller en1) (e_units en1) p v = Some fr ->
  report_of (exec (expand j p e1) en1) = report_of (exec (expand j p e2) en2).
Proof. exact verdict_position_independent. Qed.
Print Assumptions c11_verdict_position_independent.

(* positions that hand over a reference to the value (destructured fields, elements, map
   values, set elements) and positions that hand over the value itself agree *)
Theorem c11_verdict_through_reference : forall j p e1 e2 en v t1 t2 fr,
  pat_ok (e_units en) p = true ->
  eval en e1 = Some (v, t1) -> eval en e2 = Some (VRefV v, t2) ->
  frontier (e_caller en) (e_units en) p v = Some fr ->
  report_of (exec (expand j p e1) en) = report_of (exec (expand j p e2) en).
Proof. exact verdict_through_reference. Qed.
Print Assumptions c11_verdict_through_reference.

(* Acceptance half, on the rustc abstraction of Modes.v: outside closure patterns and
   identifiers used as values, every template borrows or inspects the expression it is
   handed — uses rustc accepts alike for a temporary, a place and a reference (measured by
   the form x position matrix on every run).  PARTIAL: the abstraction is validated, not proved. *)
Theorem c11_uses_mode_agnostic : forall j p e,
  by_value_free p = true -> Forall (fun u => u <> UMove) (stmt_uses (expand j p e)).
Proof. exact expansion_never_moves. Qed.
Print Assumptions c11_uses_mode_agnostic.
